#!/usr/bin/env python3
"""usage: eval_seed.py <seed dir with patch.diff> <PROP> [more PROPs | all] [--tier quick|thorough] [--seed N]
Applies the patch to /repo (working tree only), runs the checks, restores /repo, prints/records which
checks reported a VIOLATION. Never commits anything in /repo."""
import json, os, subprocess, sys, time
args = sys.argv[1:]
d = os.path.abspath(args[0])
tier = "quick"; seed = "1"
props = []
i = 1
while i < len(args):
    if args[i] == "--tier": tier = args[i+1]; i += 1
    elif args[i] == "--seed": seed = args[i+1]; i += 1
    else: props.append(args[i])
    i += 1
if props == ["all"]:
    props = ["C%02d" % k for k in range(1, 21)]
st = subprocess.run(["git", "-C", "/repo", "status", "--porcelain", "--untracked-files=no"], capture_output=True, text=True).stdout.strip()
if st:
    print("refusing: /repo has local modifications:\n" + st); sys.exit(2)
r = subprocess.run(["git", "-C", "/repo", "apply", os.path.join(d, "patch.diff")], capture_output=True, text=True)
if r.returncode != 0:
    print("patch does not apply:", r.stderr); sys.exit(2)
res = {}
try:
    for p in props:
        t0 = time.time()
        env = dict(os.environ); env["VERIF_SEED"] = seed
        pr = subprocess.run(["./check", p, tier], cwd="/verif", capture_output=True, text=True, env=env)
        lines = [l for l in pr.stdout.splitlines() if l.startswith(("VIOLATION", "KNOWN-FINDING", "INCONCLUSIVE", "OK"))]
        kinds = sorted(set(l.strip().split(":")[0] for l in pr.stderr.splitlines() if l.startswith("  ") and ":" in l))
        res[p] = {"rc": pr.returncode, "wall_s": round(time.time() - t0, 1), "lines": lines[:6], "kinds": kinds[:8]}
        print(p, "rc=%d" % pr.returncode, "%.1fs" % (time.time() - t0), "|", "; ".join(kinds[:4]) if pr.returncode == 1 else (lines[-1] if lines else ""))
finally:
    subprocess.run(["git", "-C", "/repo", "checkout", "--", "."])
out = os.path.join(d, "eval_%s_seed%s.json" % (tier, seed))
json.dump(res, open(out, "w"), indent=1)
caught = [p for p, v in res.items() if v["rc"] == 1]
print("CAUGHT BY:", caught)
