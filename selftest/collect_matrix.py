#!/usr/bin/env python3
"""usage: collect_matrix.py <dir with seeded/<id>/eval_quick_seed1.json>[:<regex on seed ids>] [more dirs]
Merges the per-seed evaluation files into /verif/seeded/<id>/meta.json ("checks") and writes
/verif/seeded/MATRIX.md."""
import json, os, sys, glob
rows = {}
# base: the rows recorded in the committed meta.json files (earlier matrix runs)
for mp in glob.glob("/verif/seeded/*/meta.json"):
    sid = os.path.basename(os.path.dirname(mp))
    for p, v in (json.load(open(mp)).get("checks") or {}).items():
        rc = {"VIOLATION": 1, "inconclusive": 2}.get(v.get("verdict"), 0)
        rows.setdefault(sid, {})[p] = {"rc": rc, "kinds": v.get("kinds", []), "wall_s": v.get("wall_s")}
import re
for arg in sys.argv[1:]:
    # "<dir>" or "<dir>:<regex on the seed id>" (a copy holds stale files of the seeds it did not run)
    base, _, pat = arg.partition(":")
    for f in glob.glob(os.path.join(base, "*", "eval_quick_seed1.json")):
        sid = os.path.basename(os.path.dirname(f))
        if pat and not re.search(pat, sid):
            continue
        r = json.load(open(f))
        # later directories override earlier ones cell by cell (a target-only re-run refreshes one cell)
        rows.setdefault(sid, {}).update(r)
props = ["C%02d" % i for i in range(1, 21)]
lines = ["# Detection matrix: seeded changes x quick checks (seed 1)", "",
         "`X` = the check reported a VIOLATION (exit 1) on the tree with the change applied; `.` = silent; `?` = inconclusive (exit 2); blank = not run.",
         "Rows: `Cxx a,b` round 1, `c,d` round 2 (dynamic defects), `e,f` round 3 (unusual inputs), `g,h` round 4 (meant to survive randomized testing), `i,j` round 5 (the circumstances of a call: context, in-flight operations, shared hidden state, rare type shapes), `k,l` round 6 (a timeboxed mini-round for six properties). The property the change was aimed at is the row's prefix.",
         "Rows a-f: every cell was measured with the harness as it was at the end of round 3; the cell of the targeted property was measured again with the final harness. Rows g,h: every cell with the final harness of round 4, their target cell again with the final harness. Rows i,j: every cell with the harness of round 5. Rows k,l: every cell with the final harness.", "",
         "| seed | " + " | ".join(p[1:] for p in props) + " | caught by target | caught by any |", "|---|" + "---|" * (len(props) + 2)]
tot = tgt = anyc = 0
for sid in sorted(rows):
    r = rows[sid]
    cells = []
    for p in props:
        if p not in r: cells.append(" ")
        else: cells.append("X" if r[p]["rc"] == 1 else ("?" if r[p]["rc"] == 2 else "."))
    t = r.get(sid[:3], {}).get("rc") == 1
    a = any(v["rc"] == 1 for v in r.values())
    tot += 1; tgt += t; anyc += a
    lines.append("| %s | %s | %s | %s |" % (sid, " | ".join(cells), "yes" if t else "NO", "yes" if a else "NO"))
    # keep the merged row next to the seed
    json.dump(r, open(os.path.join("/verif/seeded", sid, "eval_quick_seed1.json"), "w"), indent=1) if os.path.isdir(os.path.join("/verif/seeded", sid)) else None
    mp = os.path.join("/verif/seeded", sid, "meta.json")
    if os.path.exists(mp):
        m = json.load(open(mp))
        m["checks"] = {p: {"verdict": "VIOLATION" if v["rc"] == 1 else ("inconclusive" if v["rc"] == 2 else "silent"), "kinds": v.get("kinds", []), "wall_s": v.get("wall_s")} for p, v in sorted(r.items())}
        m["what_i_ran"] = "selftest/eval_seed.py: patch applied to a working tree (a private copy of /repo with the harness' dependency path rewritten; never committed), `./check <P> quick` (VERIF_SEED=1) for every property, tree restored"
        json.dump(m, open(mp, "w"), indent=1)
lines += ["", "%d seeded changes; caught by the check of the targeted property: %d; caught by at least one check: %d." % (tot, tgt, anyc)]
open("/verif/seeded/MATRIX.md", "w").write("\n".join(lines) + "\n")
print(lines[-1])
