#!/usr/bin/env python3
"""usage: store_seed.py <worktree> <a|b> <id> <round> <origin text file>
Copies a confirmed delivery (patch.diff, demo.rs, notes.md) into /verif/seeded/<id>/ and writes meta.json."""
import json, os, shutil, sys
wt, sub, sid, rnd, originf = sys.argv[1:6]
src = os.path.join(wt, "_seed", sub); dst = os.path.join("/verif/seeded", sid)
os.makedirs(dst, exist_ok=True)
for f in ("patch.diff", "demo.rs", "notes.md"):
    shutil.copy(os.path.join(src, f), os.path.join(dst, f))
patch = open(os.path.join(src, "patch.diff")).read()
files = sorted({l[6:].strip() for l in patch.splitlines() if l.startswith("+++ b/")})
res = "RESULT suite_ok=1 passed=68 demo_fails_with_change=1 demo_passes_without=1"
meta = {"id": sid, "property": sid[:3], "round": int(rnd), "origin": open(originf).read().strip(), "files_changed": files,
        "confirmed_by_me": {"where": "scratch worktree %s (removed afterwards)" % wt, "script": "selftest/confirm_seed.sh", "result": res},
        "needs_to_manifest": "see notes.md", "checks": {}}
json.dump(meta, open(os.path.join(dst, "meta.json"), "w"), indent=1)
print(dst, files)
