#!/usr/bin/env python3
"""Generates the hand-written mutants (DESIGN.md section 3, 'breaks it must catch') as patches.
Works in a scratch worktree given as argv[1]; writes /verif/selftest/mutants/<name>.diff"""
import subprocess, sys, os
WT = sys.argv[1]
OUT = "/verif/selftest/mutants"
M = [
 # name, target property, file, old, new
 ("m01_conflict_drop_read_vs_write", "C01", "src/dispatch/stage.rs",
  "let inters = check_intersection(new_writes.clone(), reads_and_writes)\n                    || check_intersection(new_reads.clone(), writes[stage][group].iter());",
  "let inters = check_intersection(new_writes.clone(), reads_and_writes);"),
 ("m03_writes_not_recorded", "C01", "src/dispatch/stage.rs",
  "        self.writes[stage][group].extend(writes);\n", "        let _ = writes;\n"),
 ("m04_batch_drops_controller_writes", "C07", "src/dispatch/builder.rs",
  "        writes.extend(<T::BatchSystemData as SystemData>::writes());\n", ""),
 ("m05_fetch_all_writes_reads_reads", "C07", "src/dispatch/stage.rs",
  "    pub fn fetch_all_writes(&self) -> Vec<ResourceId> {\n        let mut v = self\n            .writes",
  "    pub fn fetch_all_writes(&self) -> Vec<ResourceId> {\n        let mut v = self\n            .reads"),
 ("m06_remove_ids_before_find_conflict", "C02", "src/dispatch/stage.rs",
  "                let conflict = Self::find_conflict(\n                    &self.ids,\n                    &self.reads,\n                    &self.writes,\n                    stage,\n                    new_reads.clone(),\n                    new_writes.clone(),\n                    new_dep,\n                );\n                self.remove_ids(stage, new_dep);",
  "                self.remove_ids(stage, new_dep);\n                let conflict = Self::find_conflict(\n                    &self.ids,\n                    &self.reads,\n                    &self.writes,\n                    stage,\n                    new_reads.clone(),\n                    new_writes.clone(),\n                    new_dep,\n                );"),
 ("m07_barrier_noop", "C03", "src/dispatch/stage.rs",
  "        self.barrier = self.stages.len();", "        let _ = self.stages.len();"),
 ("m08_barrier_off_by_one", "C03", "src/dispatch/stage.rs",
  "        self.barrier = self.stages.len();", "        self.barrier = self.stages.len().saturating_sub(1);"),
 ("m09_execute_skips_fourth_of_group", "C04", "src/dispatch/stage.rs",
  "        self.groups.par_iter_mut().for_each(|group| {\n            for system in group {",
  "        self.groups.par_iter_mut().for_each(|group| {\n            for system in group.iter_mut().take(3) {"),
 ("m10_multidispatcher_off_by_one", "C04", "src/dispatch/batch.rs",
  "        for _ in 0..n {\n            dispatcher.dispatch(world);", "        for _ in 0..=n {\n            dispatcher.dispatch(world);"),
 ("m11_par_group_reversed", "C05", "src/dispatch/stage.rs",
  "        self.groups.par_iter_mut().for_each(|group| {\n            for system in group {",
  "        self.groups.par_iter_mut().for_each(|group| {\n            for system in group.iter_mut().rev() {"),
 ("m12_tl_before_others", "C12", "src/dispatch/dispatcher.rs",
  "        self.inner.dispatch(world);\n        self.dispatch_thread_local(world);", "        self.dispatch_thread_local(world);\n        self.inner.dispatch(world);"),
 ("m13_try_fetch_swallows_conflict", "C08", "src/world/mod.rs",
  "        let borrow = match resource.try_borrow() {\n            Ok(res) => res,\n            Err(e) => panic!(\"{}: {e}\", std::any::type_name::<T>())\n        };",
  "        let borrow = match resource.try_borrow() {\n            Ok(res) => res,\n            Err(_) => return None,\n        };"),
 ("m14_insert_by_id_no_type_check", "C09", "src/world/mod.rs",
  "        id.assert_same_type_id::<R>();\n\n        self.resources.insert(id, AtomicRefCell::new(Box::new(r)));", "        self.resources.insert(id, AtomicRefCell::new(Box::new(r)));"),
 ("m15_fetch_mut_by_id_no_type_check", "C09", "src/world/mod.rs",
  "        id.assert_same_type_id::<T>();\n\n        self.resources.get(&id).map(|r| FetchMut {", "        self.resources.get(&id).map(|r| FetchMut {"),
 ("m16_new_stage_for_every_dependent", "C10", "src/dispatch/stage.rs",
  "        if (dep_conflict && new_dep.len() > 1) || (!dep_conflict && !new_dep.is_empty()) {", "        if !new_dep.is_empty() {"),
 ("m17_groups_run_sequentially", "C11", "src/dispatch/stage.rs",
  "        self.groups.par_iter_mut().for_each(|group| {", "        let _ = 0usize.into_par_iter();\n        self.groups.iter_mut().for_each(|group| {"),
 ("m18_tl_reversed", "C12", "src/dispatch/dispatcher.rs",
  "    pub fn dispatch_thread_local(&mut self, world: &World) {\n        for sys in &mut self.thread_local {", "    pub fn dispatch_thread_local(&mut self, world: &World) {\n        for sys in self.thread_local.iter_mut().rev() {"),
 ("m19_sendable_always_ok", "C12", "src/dispatch/dispatcher.rs",
  "        if thread_local.is_empty() {\n            Ok(self.inner)\n        } else {\n            Err(self)\n        }", "        let _ = thread_local.is_empty();\n        Ok(self.inner)"),
 ("m20_dispose_first_group_only", "C13", "src/dispatch/stage.rs",
  "    pub fn dispose(self, world: &mut World) {\n        for group in self.groups {", "    pub fn dispose(self, world: &mut World) {\n        for group in self.groups.into_iter().take(1) {"),
 ("m21_setup_forgets_tl", "C13", "src/dispatch/dispatcher.rs",
  "        self.inner.setup(world);\n\n        for sys in &mut self.thread_local {\n            sys.setup(world);\n        }", "        self.inner.setup(world);"),
 ("m22_default_provider_clobbers", "C13", "src/world/setup.rs",
  "        world.entry().or_insert_with(T::default);", "        world.insert(T::default());"),
 ("m23_stage_swallows_panic", "C14", "src/dispatch/stage.rs",
  "        self.groups.par_iter_mut().for_each(|group| {\n            for system in group {\n                system.run_now(world);\n            }\n        });",
  "        self.groups.par_iter_mut().for_each(|group| {\n            for system in group {\n                let _ = std::panic::catch_unwind(std::panic::AssertUnwindSafe(|| system.run_now(world)));\n            }\n        });"),
 ("m24_wait_without_tl_noblock", "C15", "src/dispatch/async_dispatcher.rs",
  "    pub fn wait_without_tl(&mut self) {\n        self.data.inner();", "    pub fn wait_without_tl(&mut self) {\n        self.data.inner_noblock();"),
 ("m26_seq_runs_tail_first", "C16", "src/dispatch/par_seq.rs",
  "    fn run(&mut self, world: &'a World, pool: &ThreadPool) {\n        self.head.run(world, pool);\n        self.tail.run(world, pool);", "    fn run(&mut self, world: &'a World, pool: &ThreadPool) {\n        self.tail.run(world, pool);\n        self.head.run(world, pool);"),
 ("m27_par_reads_forgets_tail", "C16", "src/dispatch/par_seq.rs",
  "    fn reads(&self, reads: &mut Vec<ResourceId>) {\n        self.head.reads(reads);\n        self.tail.reads(reads);\n    }\n\n    fn writes(&self, writes: &mut Vec<ResourceId>) {\n        self.head.writes(writes);\n        self.tail.writes(writes);\n    }\n}\n\n/// Runs two tasks sequentially.",
  "    fn reads(&self, reads: &mut Vec<ResourceId>) {\n        self.head.reads(reads);\n    }\n\n    fn writes(&self, writes: &mut Vec<ResourceId>) {\n        self.head.writes(writes);\n        self.tail.writes(writes);\n    }\n}\n\n/// Runs two tasks sequentially."),
 ("m28_par_with_drops_reads_vs_writes", "C16", "src/dispatch/par_seq.rs",
  "                    || check_intersection(writes.iter(), sys_writes.iter())\n                    || check_intersection(reads.iter(), sys_writes.iter()));", "                    || check_intersection(writes.iter(), sys_writes.iter()));\n            let _ = &reads;"),
 ("m29_register_pushes_on_occupied", "C17", "src/meta.rs",
  "                let ind = *occ.get();\n\n                self.vtable_fns[ind] = vtable_fn;", "                let _ind = *occ.get();\n\n                self.vtable_fns.push(vtable_fn);\n                self.tys.push(ty_id);"),
 ("m30_metaiter_index_after_increment", "C17", "src/meta.rs",
  "                let vtable_fn = self.vtable_fns[index];\n                let trait_object = AtomicRef::map(", "                let vtable_fn = self.vtable_fns[self.index.min(self.vtable_fns.len() - 1)];\n                let _ = index;\n                let trait_object = AtomicRef::map("),
 ("m31_group_join_guard_too_wide", "C18", "src/dispatch/stage.rs",
  "self.stages[stage].groups[group].len() < MAX_SYSTEMS_PER_GROUP - 1", "self.stages[stage].groups[group].len() < MAX_SYSTEMS_PER_GROUP + 1"),
 ("m32_dup_name_message_without_name", "C18", "src/dispatch/builder.rs",
  "                panic!(\n                    \"Cannot insert multiple systems with the same name (\\\"{}\\\")\",\n                    name\n                );", "                panic!(\"Cannot insert multiple systems with the same name\");"),
 ("m34_print_sanitises_first_only", "C20", "src/dispatch/stage.rs",
  "Some(name) => name.replace([' ', '-', '/'], \"_\"),", "Some(name) => name.replacen([' ', '-', '/'], \"_\", 1),"),
 ("m35_option_write_reports_read", "C06", "src/world/data.rs",
  "    fn fetch(world: &'a World) -> Self {\n        world.try_fetch_mut().map(Into::into)\n    }\n\n    fn reads() -> Vec<ResourceId> {\n        vec![]\n    }\n\n    fn writes() -> Vec<ResourceId> {\n        vec![ResourceId::new::<T>()]\n    }",
  "    fn fetch(world: &'a World) -> Self {\n        world.try_fetch_mut().map(Into::into)\n    }\n\n    fn reads() -> Vec<ResourceId> {\n        vec![ResourceId::new::<T>()]\n    }\n\n    fn writes() -> Vec<ResourceId> {\n        vec![]\n    }"),
 ("m36_derive_skips_last_field_writes", "C06", "shred-derive/src/lib.rs",
  "                #( {\n                        let mut writes = <#tys as shred::SystemData> :: writes();", "                #( {\n                        let mut writes = <#tys_w as shred::SystemData> :: writes();"),
 ("m37_print_skips_last_group_of_wide_stage", "C20", "src/dispatch/stage.rs",
  "            for group in stage {\n                writeln!(f, \"\\t\\tseq![\")?;", "            for group in stage.iter().take(6) {\n                writeln!(f, \"\\t\\tseq![\")?;"),
 ("m38_exec_skips_setup", "C09", "src/world/mod.rs",
  "        self.setup::<T>();\n        f(self.system_data())", "        if self.resources.is_empty() {\n            self.setup::<T>();\n        }\n        f(self.system_data())"),
 ("m39_clone_does_not_count", "C08", "src/world/mod.rs",
  "            inner: AtomicRef::clone(&self.inner),", "            inner: unsafe { std::ptr::read(&self.inner) },"),
]
made = []
for name, prop, f, old, new in M:
    p = os.path.join(WT, f)
    s = open(p).read()
    if s.count(old) != 1:
        print("SKIP %s: pattern found %d times" % (name, s.count(old)))
        continue
    s2 = s.replace(old, new)
    if name.startswith("m36"):
        s2 = s2.replace("    let tys = &tys;\n", "    let tys = &tys;\n    let tys_w: Vec<_> = tys.iter().take(tys.len().saturating_sub(1).max(1)).cloned().collect();\n    let tys_w = &tys_w;\n")
    if name.startswith("m17"):
        s2 = s2.replace("let _ = 0usize.into_par_iter();\n        ", "")
    open(p, "w").write(s2)
    d = subprocess.run(["git", "-C", WT, "diff"], capture_output=True, text=True).stdout
    open(os.path.join(OUT, name + ".diff"), "w").write(d)
    open(p, "w").write(s)
    made.append((name, prop))
open(os.path.join(OUT, "INDEX.txt"), "w").write("".join("%s %s\n" % m for m in made))
print(len(made), "mutants")
