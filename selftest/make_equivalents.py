#!/usr/bin/env python3
"""Property-preserving refactorings ("equivalents"): every check must stay silent on them.
usage: make_equivalents.py <scratch worktree>   -> selftest/equivalents/<name>.diff"""
import subprocess, sys, os
WT = sys.argv[1]
OUT = "/verif/selftest/equivalents"
E = [
 ("e01_group_capacity_8", [("src/dispatch/stage.rs", "const MAX_SYSTEMS_PER_GROUP: usize = 5;", "const MAX_SYSTEMS_PER_GROUP: usize = 9;")]),
 ("e02_balance_always_joins", [("src/dispatch/stage.rs", "        (max - new_time).abs() < (max - old_time as i8).abs()\n", "        let _ = (max, new_time);\n        true\n")]),
 ("e03_balance_never_joins", [("src/dispatch/stage.rs", "        (max - new_time).abs() < (max - old_time as i8).abs()\n", "        let _ = (max, new_time);\n        false\n")]),
 ("e04_tuple_reads_reversed", [("src/system.rs", "                        let mut reads = <$ty as SystemData>::reads();\n                        r.append(&mut reads);", "                        let mut reads = <$ty as SystemData>::reads();\n                        reads.append(&mut r);\n                        r = reads;")]),
 ("e05_placeholder_spelling", [("src/dispatch/stage.rs", 'None => format!("unnamed_system_{}", system.0),', 'None => format!("_anon{}", system.0),')]),
 ("e06_builder_messages_reworded", [
    ("src/dispatch/builder.rs", '.unwrap_or_else(|| panic!("No such system registered (\\"{}\\")", *x))', ".unwrap_or_else(|| panic!(\"unknown dependency '{}'\", *x))"),
    ("src/dispatch/builder.rs", '                    "Cannot insert multiple systems with the same name (\\"{}\\")",\n                    name', "                    \"the system name <{}> is already taken\",\n                    name")]),
 ("e07_assert_messages_reworded", [
    ("src/dispatch/par_seq.rs", '"Tried to add system with conflicting reads / writes"', '"par children overlap in their access"'),
    ("src/meta.rs", '"Bug: `CastFrom` did not cast `self`"\n    );\n    trait_ptr', '"CastFrom returned a foreign address"\n    );\n    trait_ptr'),
    ("src/world/mod.rs", '"Passed a `ResourceId` with a wrong type ID"', '"resource id / type argument mismatch"')]),
 ("e08_print_on_few_lines", [("src/dispatch/stage.rs",
    '        writeln!(f, "seq![")?;\n        for stage in &self.ids {\n            writeln!(f, "\\tpar![")?;\n            for group in stage {\n                writeln!(f, "\\t\\tseq![")?;',
    '        write!(f, "seq![ ")?;\n        for stage in &self.ids {\n            write!(f, "par![ ")?;\n            for group in stage {\n                write!(f, "seq![")?;'),
    ("src/dispatch/stage.rs", '                    writeln!(f, "\\t\\t\\t{},", name)?;\n                }\n                writeln!(f, "\\t\\t],")?;\n            }\n            writeln!(f, "\\t],")?;\n        }\n        writeln!(f, "]")',
     '                    write!(f, "{}, ", name)?;\n                }\n                write!(f, "], ")?;\n            }\n            writeln!(f, "],")?;\n        }\n        writeln!(f, "]")')]),
 ("e09_batch_access_sorted_descending", [("src/dispatch/builder.rs", "        reads.sort();\n        reads.dedup();\n\n        let mut writes", "        reads.sort();\n        reads.dedup();\n        reads.reverse();\n\n        let mut writes")]),
 ("e10_stage_execute_min_len", [("src/dispatch/stage.rs", "        self.groups.par_iter_mut().for_each(|group| {", "        self.groups.par_iter_mut().with_min_len(1).for_each(|group| {")]),
 ("e11_fetch_messages_reworded", [
    ("src/world/mod.rs", '            Err(e) => panic!("{}: {e}", std::any::type_name::<T>())\n        };\n\n        Some(Fetch {', '            Err(e) => panic!("cannot borrow {} ({e})", std::any::type_name::<T>())\n        };\n\n        Some(Fetch {'),
    ("src/world/setup.rs", "            Tried to fetch resource of type `{resource_name_simple}`[^1] from the `World`, but \\\n            the resource does not exist.\\n\\", "            The `World` holds no `{resource_name_simple}`[^1].\\n\\")]),
]
made = []
for name, edits in E:
    ok = True
    originals = {}
    for f, old, new in edits:
        p = os.path.join(WT, f)
        s = originals.get(p) or open(p).read()
        originals.setdefault(p, s)
        cur = open(p).read()
        if cur.count(old) != 1:
            print("SKIP %s: pattern in %s found %d times" % (name, f, cur.count(old))); ok = False; break
        open(p, "w").write(cur.replace(old, new))
    if ok:
        d = subprocess.run(["git", "-C", WT, "diff"], capture_output=True, text=True).stdout
        open(os.path.join(OUT, name + ".diff"), "w").write(d)
        made.append(name)
    subprocess.run(["git", "-C", WT, "checkout", "--", "."])
open(os.path.join(OUT, "INDEX.txt"), "w").write("".join(m + "\n" for m in made))
print(len(made), "equivalents")
