#!/usr/bin/env python3
"""usage: run_mutants.py <scratch worktree> [name-prefix ...]
For every patch in selftest/mutants: (1) in the scratch worktree: applies, builds, runs the existing
suite (a mutant that the suite kills or that does not compile is skipped); (2) applies it to /repo's
working tree, runs the target property's quick check, restores /repo. Writes selftest/RESULTS.json."""
import json, os, subprocess, sys, time
WT = sys.argv[1]
only = sys.argv[2:]
MD = "/verif/selftest/mutants"
idx = [l.split() for l in open(os.path.join(MD, "INDEX.txt"))]
env = dict(os.environ); env["CARGO_TARGET_DIR"] = os.path.join(WT, "target"); env["CARGO_NET_OFFLINE"] = "true"
resf = "/verif/selftest/RESULTS.json"
res = json.load(open(resf)) if os.path.exists(resf) else {}
def sh(cmd, **kw):
    return subprocess.run(cmd, capture_output=True, text=True, **kw)
if not os.path.exists(os.path.join(WT, "Cargo.lock")):
    sh(["cp", "/repo/Cargo.lock", WT])
for name, prop in idx:
    if only and not any(name.startswith(o) for o in only):
        continue
    patch = os.path.join(MD, name + ".diff")
    sh(["git", "-C", WT, "checkout", "--", "."])
    a = sh(["git", "-C", WT, "apply", patch])
    if a.returncode != 0:
        res[name] = {"prop": prop, "status": "patch does not apply"}; continue
    t = sh(["cargo", "test", "--workspace", "--no-fail-fast", "--offline"], cwd=WT, env=env)
    sh(["git", "-C", WT, "checkout", "--", "."])
    passed = sum(int(l.split("ok. ")[1].split(" passed")[0]) for l in t.stdout.splitlines() if l.startswith("test result: ok."))
    if t.returncode != 0:
        fails = [l for l in t.stdout.splitlines() if l.startswith("test ") and "FAILED" in l][:4]
        res[name] = {"prop": prop, "status": "killed by the existing suite / does not build", "detail": fails or t.stderr[-300:]}
        print(name, "-> existing suite kills it", fails[:2]); json.dump(res, open(resf, "w"), indent=1); continue
    st = sh(["git", "-C", "/repo", "status", "--porcelain", "--untracked-files=no"]).stdout.strip()
    if st:
        print("/repo dirty, abort"); sys.exit(2)
    sh(["git", "-C", "/repo", "apply", patch])
    try:
        t0 = time.time()
        c = sh(["./check", prop, "quick"], cwd="/verif")
        kinds = sorted(set(l.strip().split(": ")[0] for l in c.stderr.splitlines() if l.startswith("  ") and ": " in l))
        res[name] = {"prop": prop, "status": "suite passes (%d tests)" % passed, "check_rc": c.returncode, "caught": c.returncode == 1, "kinds": kinds[:6], "wall_s": round(time.time() - t0, 1),
                     "lines": [l for l in c.stdout.splitlines() if l.startswith(("VIOLATION", "INCONCLUSIVE", "OK"))][:3]}
        print(name, prop, "CAUGHT" if c.returncode == 1 else "MISSED rc=%d" % c.returncode, kinds[:3], "%.0fs" % (time.time() - t0))
    finally:
        sh(["git", "-C", "/repo", "checkout", "--", "."])
    json.dump(res, open(resf, "w"), indent=1)
