#!/bin/sh
# usage: make_copy.sh <dir>   - private copy of /verif and /repo (for runs against patched trees that must
# not block /repo): <dir>/verif, <dir>/repo with every path rewritten. Remove the directory afterwards.
D=$1
rm -rf $D; mkdir -p $D
rsync -a --exclude 'target*' --exclude out --exclude replays --exclude .git /verif/ $D/verif/
git clone -q /repo $D/repo
cp /repo/Cargo.lock $D/repo/ 2>/dev/null
cd $D/verif
grep -rl '"/repo"\|/repo\b\|/verif\b' --include=*.toml --include=*.py --include=*.sh --include=check . | while read f; do
  sed -i "s#/verif#$D/verif#g; s#\"/repo\"#\"$D/repo\"#g; s#/repo\([\"' /]\)#$D/repo\1#g; s#$D$D#$D#g" "$f"
done
echo "copy ready in $D"
