#!/bin/sh
# usage: confirm_seed.sh <worktree> <seed-subdir>      (run in a scratch worktree of /repo, never in /repo)
# Confirms: (1) patch applies, crate builds and the existing suite passes with it,
#           (2) the demonstration fails with the patch, (3) passes without it.
WT=$1; S=$2; D=$WT/_seed/$S
export CARGO_TARGET_DIR=$WT/target CARGO_NET_OFFLINE=true
cd $WT || exit 9
git checkout -q -- src shred-derive 2>/dev/null
rm -f tests/seed_demo.rs
git apply --check $D/patch.diff || { echo "RESULT patch does not apply"; exit 1; }
git apply $D/patch.diff
echo "== suite with the change"
cargo test --workspace --no-fail-fast --offline 2>&1 | grep -E "^test result|FAILED|panicked|error(\[|:)" | head -20 > $D/confirm_suite.txt
cat $D/confirm_suite.txt
SUITE_OK=1; grep -q "FAILED\|error" $D/confirm_suite.txt && SUITE_OK=0
PASSED=$(grep "^test result: ok" $D/confirm_suite.txt | sed 's/.*ok\. \([0-9]*\) passed.*/\1/' | paste -sd+ | bc)
echo "passed=$PASSED"
cp $D/demo.rs tests/seed_demo.rs
echo "== demo with the change"
timeout 600 cargo test --offline --test seed_demo 2>&1 | tail -15 > $D/confirm_demo_with.txt; 
grep -E "^test result" $D/confirm_demo_with.txt
WITH_FAIL=0; grep -q "test result: FAILED\|error: test failed\|panicked" $D/confirm_demo_with.txt && WITH_FAIL=1
git checkout -q -- src shred-derive
echo "== demo without the change"
timeout 600 cargo test --offline --test seed_demo 2>&1 | tail -15 > $D/confirm_demo_without.txt
grep -E "^test result" $D/confirm_demo_without.txt
WITHOUT_OK=0; grep -q "test result: ok" $D/confirm_demo_without.txt && ! grep -q "FAILED" $D/confirm_demo_without.txt && WITHOUT_OK=1
rm -f tests/seed_demo.rs
echo "RESULT suite_ok=$SUITE_OK passed=$PASSED demo_fails_with_change=$WITH_FAIL demo_passes_without=$WITHOUT_OK"
