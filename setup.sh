#!/bin/sh
# Builds the framework offline from files on disk (harness against /repo's current tree).
set -e
export CARGO_NET_OFFLINE=true
cd /verif/harness
CARGO_TARGET_DIR=/verif/target cargo build --release --offline 2>&1 | tail -2
CARGO_TARGET_DIR=/verif/target-nopar cargo build --release --offline --no-default-features 2>&1 | tail -2 || echo "nopar build failed (the legs that need it will say inconclusive)"
# warm the generated-program crate (C06): shred itself is compiled once here
mkdir -p /verif/out/C06/quick
python3 /verif/harness-c06/gen_c06.py --seed 1 --tier quick --out /verif/out/C06/quick/crate --parts 16 >/dev/null
(cd /verif/out/C06/quick/crate && CARGO_TARGET_DIR=/verif/target-c06 cargo build --release --offline 2>&1 | tail -1)
echo setup done
