import json
import os
import shlex
import signal
import subprocess
import time

from .common import *  # noqa: F401,F403
from . import common


def _limit_memory(gb):
    import resource

    def f():
        try:
            resource.setrlimit(resource.RLIMIT_AS, (gb << 30, gb << 30))
        except Exception:
            pass
    return f


def _run_procs(cmds, timeout_s, env=None, cwd=None, max_par=None, mem_gb=None):
    """Runs commands concurrently. Returns list of (rc, seconds, timed_out, output_tail).
    Output goes to temporary files (a pipe would fill up and block a chatty child)."""
    import tempfile
    max_par = max_par or common.NCPU
    res = [None] * len(cmds)
    pending = list(enumerate(cmds))
    running = []

    MARKERS = ("Undefined Behavior", "Data race detected", "memory leaked", "WARNING: ThreadSanitizer", "ERROR: AddressSanitizer", "ERROR: LeakSanitizer")

    def tail_of(f):
        """End of the child's output; a sanitizer / interpreter diagnostic that sits far above the
        end (Miri prints long backtraces after it) is put in front so that it is never cut off."""
        try:
            f.flush()
            f.seek(0, 2)
            n = f.tell()
            f.seek(max(0, n - 4_000_000))
            text = f.read().decode("utf-8", "replace")
        except Exception:
            return ""
        finally:
            f.close()
        tail = text[-3500:]
        lines = text.splitlines()
        for k, l in enumerate(lines):
            if any(m in l for m in MARKERS):
                excerpt = "\n".join(lines[k:k + 14])[:1500]
                if excerpt not in tail:
                    return excerpt + "\n[...]\n" + tail
                break
        return tail

    while pending or running:
        while pending and len(running) < max_par:
            i, c = pending.pop(0)
            out = tempfile.TemporaryFile()
            p = subprocess.Popen(c, stdout=out, stderr=subprocess.STDOUT, env=env or common.BASE_ENV, cwd=cwd or common.ROOT,
                                 preexec_fn=_limit_memory(mem_gb) if mem_gb else None)
            running.append((i, p, time.time(), out))
        still = []
        for (i, p, t0, out) in running:
            rc = p.poll()
            if rc is None:
                if time.time() - t0 > timeout_s:
                    p.kill()
                    try:
                        p.wait(timeout=5)
                    except Exception:
                        pass
                    res[i] = (None, time.time() - t0, True, tail_of(out))
                else:
                    still.append((i, p, t0, out))
            else:
                res[i] = (rc, time.time() - t0, False, tail_of(out))
        running = still
        if running:
            time.sleep(0.02)
    return res


class Leg:
    """Result of one leg of a check."""

    def __init__(self, name):
        self.name = name
        self.reports = []        # shard JSON dicts
        self.inconclusive = []   # reasons (never turned into a verdict)
        self.crashes = []        # (cmd, rc / signal, tail)
        self.info = {}           # leg-level facts for the evidence file
        self.violations = []     # violations produced by the driver itself (dicts with kind/msg/...)


def leg_shards(pid, spec, leg, tier, seed, nshards_override=None):
    """Standard leg: N shard processes of one harness binary."""
    L = Leg(leg.get("name", leg.get("build", "main")))
    kind = leg.get("build", "main")
    binp, blog = common.build(kind)
    if not binp:
        if leg.get("optional"):
            L.inconclusive.append("build %s unavailable: leg skipped" % kind)
            L.info["skipped"] = "build failed: " + blog[-400:]
        else:
            L.inconclusive.append("build %s failed" % kind)
        return L
    n = nshards_override or leg.get("nshards", common.NCPU)
    outdir = os.path.join(common.OUT, pid, L.name)
    os.makedirs(outdir, exist_ok=True)
    cmds, outs = [], []
    for i in range(n):
        o = os.path.join(outdir, "shard_%d.json" % i)
        if os.path.exists(o):
            os.remove(o)
        c = leg.get("wrap", []) + [binp, leg.get("sub", spec["sub"]), "--seed", str(seed), "--shard", str(i), "--nshards", str(n), "--out", o]
        if tier == "thorough":
            c.append("--thorough")
        if leg.get("max_ms"):
            c += ["--max-ms", str(leg["max_ms"][0 if tier == "quick" else 1])]
        if leg.get("scale"):
            c += ["--scale", str(leg["scale"])]
        kk = [k for f in common.load_known() if f.get("status") == "known" and f.get("property") == pid for k in f.get("kinds", [])]
        if kk:
            c += ["--known", ",".join(kk)]
        c += leg.get("args", [])
        cmds.append(c)
        outs.append(o)
    env = dict(common.BASE_ENV)
    env.update(leg.get("env", {}))
    timeout = leg.get("timeout_s", (300, 3600))[0 if tier == "quick" else 1]
    t0 = time.time()
    # a runaway workload (e.g. exponential growth inside a broken library function) must not take
    # the machine down; sanitizer builds reserve huge virtual ranges and are exempt
    mem = None if kind in ("tsan", "asan") else 12
    res = _run_procs(cmds, timeout, env=env, max_par=leg.get("max_par"), mem_gb=mem)
    # one retry for shards that died without a report (keeps flaky infrastructure from deciding)
    for i, r in enumerate(res):
        rc, dt, to, tail = r
        if to:
            L.inconclusive.append("shard %d of %s stopped by the wall-clock watchdog after %.0fs" % (i, L.name, dt))
            continue
        if rc != 0 or not os.path.exists(outs[i]):
            r2 = _run_procs([cmds[i]], timeout, env=env, mem_gb=mem)[0]
            if r2[0] != 0 or not os.path.exists(outs[i]):
                L.crashes.append({"cmd": " ".join(shlex.quote(x) for x in cmds[i]), "rc": r2[0], "first_rc": rc, "tail": (r2[3] or tail)[-1500:]})
                continue
        try:
            with open(outs[i]) as f:
                L.reports.append(json.load(f))
        except Exception as e:
            L.inconclusive.append("unreadable report of shard %d: %s" % (i, e))
    L.info["wall_s"] = round(time.time() - t0, 2)
    L.info["shards"] = n
    L.info["build"] = kind
    return L


LEG_KINDS = {"shards": leg_shards}


def register_leg_kind(name, fn):
    LEG_KINDS[name] = fn


def _sig_name(rc):
    if rc is not None and rc < 0:
        try:
            return signal.Signals(-rc).name
        except Exception:
            return "signal%d" % -rc
    return "exit%s" % rc


def run_check(pid, spec, tier, seed, nshards=None):
    t0 = time.time()
    os.makedirs(common.EVIDENCE, exist_ok=True)
    os.makedirs(common.REPLAYS, exist_ok=True)
    legs = spec["legs"][tier] if isinstance(spec["legs"], dict) else spec["legs"]
    results = []
    for leg in legs:
        fn = LEG_KINDS[leg.get("kind", "shards")]
        k = leg.get("kind", "shards")
        if k == "shards":
            results.append(fn(pid, spec, leg, tier, seed, nshards))
        elif k == "xcfg":
            results.append(fn(pid, spec, leg, tier, seed, results))
        else:
            results.append(fn(pid, spec, leg, tier, seed))

    evaluations = 0
    nontrivial = set()
    samples = []
    metrics = {}
    sets = {}
    violations = []
    inconclusive = []
    inconclusive_cases = 0
    notes = []
    leg_info = {}
    for L in results:
        li = dict(L.info)
        li["evaluations"] = 0
        for r in L.reports:
            evaluations += r.get("evaluations", 0)
            li["evaluations"] += r.get("evaluations", 0)
            for h in r.get("nontrivial", []):
                nontrivial.add(h)
            for s in r.get("samples", []):
                if len(samples) < spec.get("max_samples", 4):
                    samples.append(s)
            for k, v in r.get("metrics", {}).items():
                if k.startswith("max_"):
                    metrics[k] = max(metrics.get(k, v), v)
                else:
                    metrics[k] = metrics.get(k, 0) + v
            for k, v in r.get("sets", {}).items():
                sets.setdefault(k, set()).update(v)
            for v in r.get("violations", []):
                v = dict(v)
                v["leg"] = L.name
                v["bin_build"] = L.info.get("build", "main")
                violations.append(v)
            li["violation_count"] = li.get("violation_count", 0) + r.get("violation_count", 0)
            inconclusive_cases += r.get("inconclusive", 0)
            notes += r.get("notes", [])[:5]
            if r.get("stopped_by_time"):
                li["stopped_by_time"] = li.get("stopped_by_time", 0) + 1
        for v in L.violations:
            v = dict(v)
            v["leg"] = L.name
            violations.append(v)
        for c in L.crashes:
            sig = _sig_name(c["rc"])
            if spec.get("crash_is_violation") and c["rc"] is not None and c["rc"] < 0:
                violations.append({"kind": "process_crash:" + sig, "msg": "the workload process died with %s twice in a row: %s" % (sig, c["tail"][-300:]), "replay_cmd": c["cmd"], "leg": L.name, "detail": c})
            else:
                inconclusive.append("leg %s: shard died (%s) without a report: %s" % (L.name, sig, c["tail"][-300:]))
        inconclusive += L.inconclusive
        leg_info[L.name] = li

    # --- verdicts ---
    unknown, known = [], {}
    for v in violations:
        kf = common.known_match(pid, v.get("kind", ""))
        if kf:
            known.setdefault(kf["id"], {"finding": kf, "count": 0, "example": v})
            known[kf["id"]]["count"] += 1
        else:
            unknown.append(v)
    total_violation_count = sum(li.get("violation_count", 0) for li in leg_info.values()) + sum(len(L.violations) for L in results)

    replay_paths = []
    for i, v in enumerate(unknown[:5]):
        path = os.path.join(common.REPLAYS, "%s-seed%d-%s-%d.json" % (pid, seed, tier, i))
        with open(path, "w") as f:
            json.dump({"property": pid, "seed": seed, "tier": tier, "violation": v}, f, indent=1)
        replay_paths.append(path)

    distinct = len(nontrivial)
    coverage = {
        "evaluations": int(evaluations),
        "distinct_nontrivial": int(distinct),
        "rule": spec["rule"],
        "samples": samples if samples else [{"note": "no sample recorded"}],
        "exhaustive": bool(spec.get("exhaustive", False)),
        "observed": {k: metrics[k] for k in sorted(metrics)},
        "distinct_sets": {k: len(v) for k, v in sorted(sets.items())},
        "legs": leg_info,
        "distinct_counting": "per shard at most 40 000 distinct hashes are kept (conservative lower bound for larger runs)",
        "inconclusive_cases": int(inconclusive_cases),
        "inconclusive_reasons": inconclusive[:10],
        "known_findings_seen": {k: {"count": x["count"], "what": x["finding"]["what"]} for k, x in known.items()},
        "notes": notes[:10],
    }
    if spec.get("coverage_extra"):
        coverage.update(spec["coverage_extra"](metrics, sets, leg_info))
    ev = {
        "property_id": pid,
        "tier": tier,
        "seed": int(seed),
        "level": spec.get("level", "exploration"),
        "coverage": coverage,
        "assumptions": spec.get("assumptions", []),
        "wall_s": round(time.time() - t0, 2),
        "violations": int(len(unknown)),
        "violations_total_observed": int(total_violation_count),
        "verdict": "violated" if unknown else ("inconclusive" if (inconclusive or distinct < spec.get("floor", 2) or evaluations < 1) else "held on what was observed"),
    }
    with open(os.path.join(common.EVIDENCE, pid + ".json"), "w") as f:
        json.dump(ev, f, indent=1)

    for k, x in known.items():
        print("KNOWN-FINDING: property=%s %s: %s (seen %d times in this run, e.g. %s)" % (
            pid, k, x["finding"]["what"], x["count"], x["example"].get("msg", "")[:200]))
    if unknown:
        for v, pth in zip(unknown, replay_paths):
            common.log("  %s: %s" % (v.get("kind"), v.get("msg", "")[:600]))
            print("VIOLATION property=%s replay=%s" % (pid, pth))
        if len(unknown) > len(replay_paths):
            common.log("  (+%d further violations)" % (len(unknown) - len(replay_paths)))
        return 1
    if inconclusive or evaluations < 1 or distinct < spec.get("floor", 2):
        for r in inconclusive[:10]:
            print("INCONCLUSIVE property=%s %s" % (pid, r))
        if distinct < spec.get("floor", 2):
            print("INCONCLUSIVE property=%s coverage floor not reached: %d distinct non-trivial cases" % (pid, distinct))
        return 2
    print("OK property=%s tier=%s seed=%d evaluations=%d distinct_nontrivial=%d wall=%.1fs" % (pid, tier, seed, evaluations, distinct, time.time() - t0))
    return 0


def do_replay(pid, spec, path):
    with open(path) as f:
        rp = json.load(f)
    v = rp["violation"]
    cmd = v.get("replay_cmd")
    if cmd == "WHOLE" or spec.get("replay_whole"):
        # deterministic in (tier, seed): the whole check is the replay
        return run_check(pid, spec, rp.get("tier", "quick"), int(rp.get("seed", 1)))
    if not cmd:
        print("no replay command recorded in", path)
        return 64
    kind = v.get("bin_build", "main")
    parts = shlex.split(cmd)
    if parts[0] == "sv":
        binp, _ = common.build(kind if kind in common.BUILDS else "main")
        if not binp:
            return 2
        parts[0] = binp
    out = os.path.join(common.OUT, pid + "-replay.json")
    p = subprocess.run(parts + ["--verbose", "--out", out], env=common.BASE_ENV, cwd=common.ROOT)
    try:
        with open(out) as f:
            r = json.load(f)
    except Exception:
        print("replay produced no report (rc=%s)" % p.returncode)
        return 1 if p.returncode and p.returncode < 0 else 2
    same = [x for x in r.get("violations", []) if x.get("kind") == v.get("kind")]
    for x in r.get("violations", []):
        print("replayed:", x.get("kind"), "-", x.get("msg", "")[:800])
    if same:
        print("VIOLATION property=%s replay=%s" % (pid, path))
        return 1
    print("replay did not reproduce kind %s (%d other violations)" % (v.get("kind"), len(r.get("violations", []))))
    return 0


def leg_c06(pid, spec, leg, tier, seed):
    """Generated type programs: generate -> cargo build -> run the part binaries."""
    import sys as _sys
    L = Leg("c06-programs")
    crate = os.path.join(common.OUT, pid, tier, "crate")
    os.makedirs(crate, exist_ok=True)
    parts = 16
    t0 = time.time()
    g = subprocess.run([_sys.executable, os.path.join(common.ROOT, "harness-c06", "gen_c06.py"), "--seed", str(seed), "--tier", tier, "--out", crate, "--parts", str(parts)],
                       stdout=subprocess.PIPE, stderr=subprocess.STDOUT, text=True)
    if g.returncode != 0:
        L.inconclusive.append("generator failed: " + g.stdout[-400:])
        return L
    env = dict(common.BASE_ENV)
    tdir = os.path.join(common.ROOT, "target-c06")
    env["CARGO_TARGET_DIR"] = tdir
    b = subprocess.run(["cargo", "build", "--release", "--offline"], cwd=crate, env=env, stdout=subprocess.PIPE, stderr=subprocess.STDOUT, text=True)
    if b.returncode != 0:
        # the generated programs only use the documented constructors: a compile error is a
        # harness/generator problem or an API change, never a verdict
        L.inconclusive.append("generated crate does not build: " + "\n".join(b.stdout.splitlines()[-15:]))
        return L
    L.info["build_s"] = round(time.time() - t0, 2)
    L.info["types_generated"] = int(g.stdout.strip().splitlines()[-1])
    outdir = os.path.join(common.OUT, pid, tier)
    cmds, outs = [], []
    for k in range(parts):
        o = os.path.join(outdir, "part_%d.json" % k)
        if os.path.exists(o):
            os.remove(o)
        cmds.append([os.path.join(tdir, "release", "g%d" % k), "--seed", str(seed), "--part", str(k), "--out", o])
        outs.append(o)
    res = _run_procs(cmds, 150, env=env)
    for k, r in enumerate(res):
        rc, dt, to, tail = r
        if to or rc != 0 or not os.path.exists(outs[k]):
            L.crashes.append({"cmd": " ".join(cmds[k]), "rc": rc, "first_rc": rc, "tail": tail[-800:]})
            continue
        with open(outs[k]) as f:
            rep = json.load(f)
        for v in rep.get("violations", []):
            v["replay_cmd"] = "WHOLE"
        L.reports.append(rep)
    # thorough: a slice of the same programs under Miri (unchecked downcasts in Fetch::deref /
    # FetchMut::deref_mut, guard mapping, unwinding through half-built tuples)
    if tier == "thorough" and leg.get("miri", True):
        menv = dict(env)
        menv["MIRIFLAGS"] = MIRI_DEFAULT
        menv["CARGO_TARGET_DIR"] = os.path.join(common.ROOT, "target-c06-miri")
        mcmds, mouts = [], []
        for k in range(0, parts, 2):
            o = os.path.join(outdir, "miri_part_%d.json" % k)
            if os.path.exists(o):
                os.remove(o)
            mcmds.append(["cargo", "+nightly", "miri", "run", "--offline", "-q", "--bin", "g%d" % k, "--", "--seed", str(seed), "--part", str(k), "--limit", "12", "--out", o])
            mouts.append(o)
        tm = time.time()
        # the first one builds, the rest reuse the build
        first = _run_procs(mcmds[:1], 900, env=menv, cwd=crate)
        rest = _run_procs(mcmds[1:], 900, env=menv, cwd=crate) if first and first[0][0] == 0 else []
        mi = {"types": 0, "presence_patterns": 0, "diagnostics": 0}
        for (rc, dt, to, tail), o, c in zip(first + rest, mouts, mcmds):
            if to:
                L.inconclusive.append("c06 miri slice stopped by the watchdog")
            elif rc != 0:
                if "Undefined Behavior" in tail or "Data race detected" in tail or "memory leaked" in tail:
                    firstl = [l for l in tail.splitlines() if l.startswith("error")]
                    L.violations.append({"kind": "miri:" + (firstl[0][:120] if firstl else "diagnostic"), "msg": "Miri reported: " + tail[-1200:], "replay_cmd": "WHOLE"})
                    mi["diagnostics"] += 1
                else:
                    L.inconclusive.append("c06 miri slice exited with %s: %s" % (rc, tail[-300:]))
            else:
                try:
                    with open(o) as f:
                        r = json.load(f)
                    mi["types"] += r["metrics"]["types"]
                    mi["presence_patterns"] += r["metrics"]["presence_patterns"]
                    for v in r.get("violations", []):
                        v["replay_cmd"] = "WHOLE"
                        v["leg"] = "c06-miri"
                        L.violations.append(v)
                except Exception as e:
                    L.inconclusive.append("c06 miri slice: unreadable report: %s" % e)
        mi["wall_s"] = round(time.time() - tm, 1)
        L.info["miri_slice"] = mi
    L.info["wall_s"] = round(time.time() - t0, 2)
    L.info["build"] = "c06"
    return L


register_leg_kind("c06", leg_c06)


def _tables(L):
    t = {}
    for r in L.reports:
        key = (r.get("shard"), r.get("nshards"))
        for row in r.get("table", []):
            t[(key, row[0])] = (row[1], row[2])
    return t


def leg_xcfg(pid, spec, leg, tier, seed, prior):
    """Cross-process / cross-configuration comparison: the same cases are re-run with --dump in a
    second process of the main build and in the build without the `parallel` feature; the recorded
    (plan hash, result hash) rows must agree with each other and with the main leg's rows."""
    L = Leg(leg.get("name", "xcfg"))
    base = None
    for p in prior:
        if p.name == leg.get("against", "main"):
            base = p
    tabs = {}
    for kind in leg.get("builds", ["main", "nopar"]):
        sub = dict(leg)
        sub.update({"kind": "shards", "build": kind, "name": "%s-%s" % (L.name, kind), "args": ["--dump"] + leg.get("args", []), "optional": kind != "main"})
        R = leg_shards(pid, spec, sub, tier, seed)
        L.inconclusive += R.inconclusive
        L.crashes += R.crashes
        L.info[kind] = R.info
        for r in R.reports:
            # the dump runs contribute no cases of their own; only their tables are used
            r["evaluations"] = 0
            r["nontrivial"] = []
            r["samples"] = []
        if R.reports:
            tabs[kind] = _tables(R)
    if base is not None:
        tabs["main-leg"] = _tables(base)
    names = sorted(tabs)
    compared = 0
    what = leg.get("what", "result")
    for i in range(len(names)):
        for j in range(i + 1, len(names)):
            a, b = tabs[names[i]], tabs[names[j]]
            for k in a:
                if k in b:
                    compared += 1
                    if a[k][0] != b[k][0]:
                        L.inconclusive.append("generator not reproducible across %s / %s for case %s (harness problem)" % (names[i], names[j], k))
                        break
                    if a[k][1] != b[k][1]:
                        (sh, nsh), case = k
                        L.violations.append({
                            "kind": "%s_differs_across:%s/%s" % (what, names[i], names[j]),
                            "msg": "case %s of shard %s/%s: %s hash %s in %s but %s in %s (same registration sequence, plan hash %s)" % (case, sh, nsh, what, a[k][1], names[i], b[k][1], names[j], a[k][0]),
                            "replay_cmd": "WHOLE",
                        })
                        break
    L.info["rows_compared"] = compared
    L.info["configurations"] = names
    return L


register_leg_kind("xcfg", leg_xcfg)


MIRI_DEFAULT = "-Zmiri-disable-isolation -Zmiri-permissive-provenance"
MIRI_RAYON = MIRI_DEFAULT + " -Zmiri-tree-borrows -Zmiri-ignore-leaks"


def leg_miri(pid, spec, leg, tier, seed):
    """The same workload, scaled down, interpreted by Miri (UB + data-race detector).
    A Miri diagnostic (Undefined Behavior / data race / leak) is a violation; anything else that
    stops the interpreter (unsupported operation, build problem, watchdog) is inconclusive."""
    L = Leg(leg.get("name", "miri"))
    env = dict(common.BASE_ENV)
    env["MIRIFLAGS"] = leg.get("flags", MIRI_DEFAULT)
    env["CARGO_TARGET_DIR"] = os.path.join(common.ROOT, "target-miri")
    env["RAYON_NUM_THREADS"] = "3"
    n = leg.get("nshards", common.NCPU)
    outdir = os.path.join(common.OUT, pid, L.name)
    os.makedirs(outdir, exist_ok=True)
    base = ["cargo", "+nightly", "miri", "run", "--offline", "-q", "--"]
    t0 = time.time()
    # build once (a run that does zero cases)
    warm = subprocess.run(base + [leg.get("sub", spec["sub"]), "--scale", "0", "--out", os.path.join(outdir, "warm.json")] + leg.get("args", []),
                          cwd=common.HARNESS, env=env, stdout=subprocess.PIPE, stderr=subprocess.STDOUT, text=True)
    if warm.returncode != 0:
        L.inconclusive.append("miri leg unavailable (build/run of the interpreter failed): " + warm.stdout[-300:])
        L.info["skipped"] = True
        return L
    cmds, outs = [], []
    for i in range(n):
        o = os.path.join(outdir, "shard_%d.json" % i)
        if os.path.exists(o):
            os.remove(o)
        cmds.append(base + [leg.get("sub", spec["sub"]), "--seed", str(seed), "--shard", str(i), "--nshards", str(n), "--scale", str(leg.get("scale", 0.01)), "--out", o,
                            "--max-ms", str(leg.get("max_ms", 240000))] + (["--thorough"] if tier == "thorough" else []) + leg.get("args", []))
        outs.append(o)
    res = _run_procs(cmds, leg.get("timeout_s", 900), env=env, cwd=common.HARNESS)
    for i, (rc, dt, to, tail) in enumerate(res):
        if to:
            L.inconclusive.append("miri shard %d stopped by the watchdog" % i)
            continue
        if rc != 0:
            if "Undefined Behavior" in tail or "Data race detected" in tail or "memory leaked" in tail:
                first = [l for l in tail.splitlines() if l.startswith("error")]
                L.violations.append({"kind": "miri:" + (first[0][:120] if first else "diagnostic"), "msg": "Miri reported: " + tail[-1200:], "replay_cmd": " ".join(cmds[i])})
            else:
                L.inconclusive.append("miri shard %d exited with %s: %s" % (i, rc, tail[-300:]))
            continue
        try:
            with open(outs[i]) as f:
                L.reports.append(json.load(f))
        except Exception as e:
            L.inconclusive.append("miri shard %d: unreadable report: %s" % (i, e))
    for r in L.reports:
        # sanitizer legs are reported separately: their cases do not inflate the main counts
        L.info["miri_evaluations"] = L.info.get("miri_evaluations", 0) + r.get("evaluations", 0)
        for k, v in r.get("metrics", {}).items():
            if k in ("ops", "dispatches", "windows", "stress_ops", "tree_dispatches", "panic_dispatches"):
                L.info["miri_" + k] = L.info.get("miri_" + k, 0) + v
        r["metrics"] = {}
        r["evaluations"] = 0
        r["nontrivial"] = []
        r["samples"] = []
        r["sets"] = {}
    L.info["wall_s"] = round(time.time() - t0, 2)
    L.info["flags"] = env["MIRIFLAGS"]
    L.info["build"] = "miri"
    L.info["diagnostics"] = len(L.violations)
    return L


register_leg_kind("miri", leg_miri)


def leg_san(pid, spec, leg, tier, seed):
    """Compiler-sanitizer leg (TSan / ASan): the same workload in an instrumented build. A report
    makes the process exit with a dedicated code; that is a violation with the report as witness."""
    san = leg["san"]
    L = Leg(leg.get("name", san))
    sub = dict(leg)
    sub.update({"kind": "shards", "build": san, "name": L.name, "optional": True})
    env = dict(leg.get("env", {}))
    if san == "tsan":
        env["TSAN_OPTIONS"] = "halt_on_error=1 exitcode=66 second_deadlock_stack=1"
    else:
        env["ASAN_OPTIONS"] = "halt_on_error=1:exitcode=67:detect_leaks=%d:abort_on_error=0" % (1 if leg.get("leaks", True) else 0)
    sub["env"] = env
    R = leg_shards(pid, spec, sub, tier, seed)
    L.inconclusive = R.inconclusive
    L.info = R.info
    L.reports = R.reports
    for c in R.crashes:
        tail = c.get("tail", "")
        if c.get("rc") in (66, 67) or "ThreadSanitizer" in tail or "AddressSanitizer" in tail:
            summ = [l for l in tail.splitlines() if l.startswith("SUMMARY") or "WARNING: ThreadSanitizer" in l or "ERROR: AddressSanitizer" in l]
            L.violations.append({"kind": "%s:%s" % (san, (summ[0] if summ else "report")[:140]), "msg": "%s report: %s" % (san, tail[-1500:]), "replay_cmd": c["cmd"], "bin_build": san})
        else:
            L.crashes.append(c)
    for r in L.reports:
        L.info["san_evaluations"] = L.info.get("san_evaluations", 0) + r.get("evaluations", 0)
        for k, v in r.get("metrics", {}).items():
            if k in ("ops", "dispatches", "windows", "stress_ops", "twin_dispatches"):
                L.info["san_" + k] = L.info.get("san_" + k, 0) + v
        r["metrics"] = {}
        r["evaluations"] = 0
        r["nontrivial"] = []
        r["samples"] = []
        r["sets"] = {}
    L.info["reports"] = len(L.violations)
    return L


register_leg_kind("san", leg_san)
