import json
import os
import subprocess
import sys
import time

ROOT = os.path.dirname(os.path.dirname(os.path.abspath(__file__)))
HARNESS = os.path.join(ROOT, "harness")
OUT = os.path.join(ROOT, "out")
EVIDENCE = os.path.join(ROOT, "evidence")
REPLAYS = os.path.join(ROOT, "replays")
KNOWN = os.path.join(ROOT, "known_findings.json")
NCPU = os.cpu_count() or 8

BASE_ENV = dict(os.environ)
BASE_ENV.update({"CARGO_NET_OFFLINE": "true", "CARGO_TERM_COLOR": "never"})
# default rayon pools (C11 default-pool leg, nested batches) stay bounded
BASE_ENV.setdefault("RAYON_NUM_THREADS", "16")


def log(*a):
    print(*a, file=sys.stderr, flush=True)


def target_dir(kind):
    return os.path.join(ROOT, "target" if kind == "main" else "target-" + kind)


BUILDS = {
    # kind: (cargo args, extra env, relative path of the binary inside the target dir)
    "main": (["build", "--release", "--offline"], {}, "release/sv"),
    "plain": (["build", "--profile", "plain", "--offline"], {}, "plain/sv"),
    "nopar": (["build", "--release", "--offline", "--no-default-features"], {}, "release/sv"),
    # shred's `nightly` feature selects the ptr_metadata implementation of the meta table
    "nightlymeta": (["+nightly", "build", "--release", "--offline", "--features", "shred-nightly"], {}, "release/sv"),
    "tsan": (["+nightly", "build", "--release", "--offline", "-Zbuild-std", "--target", "x86_64-unknown-linux-gnu"],
             {"RUSTFLAGS": "-Zsanitizer=thread -Cunsafe-allow-abi-mismatch=sanitizer", "CARGO_PROFILE_RELEASE_OPT_LEVEL": "1"},
             "x86_64-unknown-linux-gnu/release/sv"),
    "asan": (["+nightly", "build", "--release", "--offline", "--target", "x86_64-unknown-linux-gnu"],
             {"RUSTFLAGS": "-Zsanitizer=address -Cforce-frame-pointers=yes"},
             "x86_64-unknown-linux-gnu/release/sv"),
}

_built = {}


def build(kind="main"):
    """Builds the harness against /repo's current working tree. Returns (binary path | None, log)."""
    if kind in _built:
        return _built[kind]
    args, env_extra, rel = BUILDS[kind]
    env = dict(BASE_ENV)
    env.update(env_extra)
    tdir = target_dir("main" if kind == "plain" else kind)
    env["CARGO_TARGET_DIR"] = tdir
    t0 = time.time()
    p = subprocess.run(["cargo"] + args, cwd=HARNESS, env=env, stdout=subprocess.PIPE, stderr=subprocess.STDOUT, text=True)
    dt = time.time() - t0
    binp = os.path.join(tdir, rel)
    if p.returncode != 0 or not os.path.exists(binp):
        tail = "\n".join(p.stdout.splitlines()[-40:])
        log("BUILD FAILED (%s) after %.1fs:\n%s" % (kind, dt, tail))
        _built[kind] = (None, tail)
    else:
        log("build %s ok (%.1fs)" % (kind, dt))
        _built[kind] = (binp, "")
    return _built[kind]


def load_known():
    try:
        with open(KNOWN) as f:
            return json.load(f).get("findings", [])
    except Exception as e:  # a broken file must not silently suppress anything
        log("known_findings.json unreadable:", e)
        return []


def known_match(pid, kind):
    for f in load_known():
        if f.get("status") == "known" and f.get("property") == pid and kind in f.get("kinds", []):
            return f
    return None
