"""Per-property table: subcommand, non-triviality rule, legs per tier, assumptions."""

COMMON_ASSUMPTIONS = [
    "verdicts cover only the executions produced in this run (sampling; nothing is exhaustive unless coverage.exhaustive says so)",
    "harness built with opt-level 2, debug-assertions and overflow-checks on, against /repo's working tree with feature verif-hooks",
    "the identification run relies on dispatch_seq visiting stage -> group -> position order (cross-checked by C20 and by the event-log oracle)",
    "rustc/cargo, rayon and atomic_refcell as shipped are trusted",
]


def shards(sub=None, **kw):
    d = {"kind": "shards", "build": "main"}
    if sub:
        d["sub"] = sub
    d.update(kw)
    return d


TABLE = {}


def prop(pid, sub, rule, quick=None, thorough=None, **kw):
    TABLE[pid] = {
        "sub": sub,
        "rule": rule,
        "level": kw.pop("level", "exploration"),
        "assumptions": COMMON_ASSUMPTIONS + kw.pop("assumptions", []),
        "legs": {"quick": quick or [shards()], "thorough": thorough or [shards()]},
    }
    TABLE[pid].update(kw)


prop("C01", "c01",
     "cases = generated registration sequences (profiles sparse-wide/dense/funnel/mixed/batchy/dep-fans/tiny; dyn+static systems, deps, hints, barriers, batches <=3 deep) built into a real dispatcher; "
     "every plan goes through the layout oracle, every 6th is executed 2-3 times on a pool of 1/2/3/4/8/16 threads via dispatch/dispatch_par/dispatch_seq/async under jitter, forced overlap or a scripted interleaving and judged by the event-log oracle. "
     "A case is counted as distinct non-trivial by (layout hash, pool size, first event-order hash) when the plan has >=1 conflicting pair, the layout has a stage with >=2 groups and >=1 overlap of unordered systems was actually observed in the log.")

prop("C02", "c02",
     "cases = generated plans from dependency-heavy profiles (chains, fans, duplicate names, names from before a barrier, resource-less systems); layout oracle on every plan (dependency strictly earlier in stage or earlier in the same group); "
     "every 8th plan executed with one dependency source parked inside run() (hold driver) until everything the recovered layout lets finish has finished plus a grace period; verdict by the event-log oracle over the transitive dependency relation of the plan. "
     "distinct non-trivial = (plan hash, driver) with >=1 dependency edge and either a completed hold or >=1 dependency pair checked in the log.")

prop("C03", "c03",
     "cases = generated plans from barrier-heavy profiles (leading, trailing, repeated barriers, unrelated systems on both sides, barriers inside batches); layout oracle: max stage before an effective barrier < min stage after it; "
     "every 8th plan executed with a pre-barrier system parked inside run(); event-log oracle orders every pre/post pair and thread-local systems after everything. "
     "distinct non-trivial = (plan,layout) in which an effective barrier separates >=1 pair that has neither a conflict nor a dependency.")

prop("C07", "c07",
     "cases = generated plans with batches nested 1..3 deep, controllers with empty/read/write/mixed declared data (real library SystemData types), k = 0..3 inner dispatches, HCtl and MultiDispatcher controllers; "
     "layout oracle with the harness's own union of controller data and everything inside; event-log oracle on the batch window against outer systems and C01/C02/C03/C04 oracles re-applied per inner dispatch epoch. "
     "distinct non-trivial = (plan,layout) with a batch whose inner systems add access beyond the controller's, beside >=1 other outer unit.")

prop("C10", "c10",
     "cases = generated plans from every profile incl. 200-600 systems; pure layout oracle: for every system and every stage it skipped after the first allowed one, search for an earlier-registered conflicting system in that stage or a direct dependency in that stage or later; max_threads() == widest stage (top level and every batch). "
     "distinct non-trivial = (plan,layout) in which >=1 skipped stage had to be justified.")

prop("C12", "c12",
     "cases = generated plans with 1..6 thread-local systems mixed with ordinary systems, barriers and batches (also builders with thread-local systems passed to add_batch); executed every 4th via dispatch / seq+thread_local / async wait under jitter, hold of an ordinary system or forced overlap; "
     "oracle: thread id == caller's, start after every ordinary system's end, registration order, one at a time; layout oracle: thread-local list == registration order. "
     "distinct non-trivial = (plan hash, driver) with >=1 thread-local window observed beside >=1 ordinary system.")

prop("C04", "c04",
     "cases = generated plans (1..600 systems, funnels that fill groups, dozens to hundreds of stages, batches nested with k=0..3 inner dispatches incl. MultiDispatcher, thread-local systems) x pool 1..16 x a random sequence (length 1..12) of dispatch / dispatch_par / dispatch_seq / dispatch_seq+dispatch_thread_local / dispatch_thread_local calls; "
     "after every call the per-system run counters are compared with a reference count model (batch members multiply by the controller's k along the nesting); a third of the calls on small plans are monitored and the event log is checked (no re-entry, epochs do not overtake, nothing outside the call); the layout must hold every registered system exactly once; SendDispatcher after try_into_sendable likewise. "
     "distinct non-trivial = (layout hash, call-sequence hash) with >=2 stages or a batch, and a sequence of >=2 calls.")

prop("C19", "c19",
     "cases = generated plans from every profile; recovered layouts (nested lists of registration identities) compared between the original and: an in-process rebuild, a consistent renaming of every system (unnamed stay unnamed), an injective relabelling of all resources not pinned by a static Rust type (across types and dynamic ids), a permutation of every dynamic system's read and write lists, and all of these at once. "
     "distinct non-trivial = (plan hash, transformation) where the transformation really changed >=1 name / id / list order.")

prop("C20", "c20",
     "cases = generated builders (names with spaces, dashes, slashes, unicode; 10-60% unnamed systems; batches; empty builders); `{:?}` and `{:#?}` of every builder level (inner builders just before add_batch, the top builder before build) under catch_unwind, parsed with a strict seq!/par!/seq! grammar and compared positionally with the executed layout (shape hook + identification run): stage/group/size structure, total count, and the sanitised name at every position of a named system (any non-empty token is accepted for unnamed ones). "
     "distinct non-trivial = (plan, layout) with a stage of >=2 groups and >=1 unnamed or sanitised name.")

prop("C18", "c18",
     "cases = registration sequences of up to ~600 calls (funnels that fill groups from both sides, running-time hints, hundreds of empty names, names needing sanitising, batches, thread-local, barriers); half of them carry exactly one ill-formed call at a random position: a reused non-empty name, or a dependency on the empty name / a name registered later / a name that only exists inside a batch / its own name / a sanitised spelling / a fresh name. "
     "Every single builder call runs under catch_unwind: panic <=> ill-formed, at that very call, message contains the quoted name; a well-formed sequence must also build(). "
     "distinct non-trivial = sequence hash with >=20 calls or an ill-formed call that was reached.")

prop("C13", "c13",
     "cases = generated plans with batches nested 0..3 deep (HCtl and MultiDispatcher controllers with library SystemData as declared data), static library-typed systems, dynamic systems and thread-local systems, set up 1..3 times in worlds where a random subset of the 32 resources pre-exists with sentinel values, with inserts/removes between rounds, then disposed; every 8th case uses AsyncDispatcher::setup. "
     "Oracles: per-system setup counter == number of setup calls, dispose counter == 1 (any depth, thread-local included); world before/after against a reference (pre-existing values untouched, default-providing accessors create the default, Option/Expect create nothing). "
     "distinct non-trivial = (plan hash, initial-world density) with a batch member or thread-local system and >=1 pre-existing resource.")
