"""Per-property table: subcommand, non-triviality rule, legs per tier, assumptions."""

COMMON_ASSUMPTIONS = [
    "verdicts cover only the executions produced in this run (sampling; nothing is exhaustive unless coverage.exhaustive says so)",
    "harness built with opt-level 2, debug-assertions and overflow-checks on, against /repo's working tree with feature verif-hooks",
    "the identification run relies on dispatch_seq visiting stage -> group -> position order (cross-checked by C20 and by the event-log oracle)",
    "rustc/cargo, rayon and atomic_refcell as shipped are trusted",
]


def miri(rayon=False, **kw):
    from .legs import MIRI_DEFAULT, MIRI_RAYON
    d = {"kind": "miri", "flags": MIRI_RAYON if rayon else MIRI_DEFAULT}
    d.update(kw)
    return d


def san(kind, **kw):
    d = {"kind": "san", "san": kind}
    d.update(kw)
    return d


def shards(sub=None, **kw):
    d = {"kind": "shards", "build": "main"}
    if sub:
        d["sub"] = sub
    d.update(kw)
    return d


TABLE = {}


def prop(pid, sub, rule, quick=None, thorough=None, **kw):
    TABLE[pid] = {
        "sub": sub,
        "rule": rule,
        "level": kw.pop("level", "exploration"),
        "assumptions": COMMON_ASSUMPTIONS + kw.pop("assumptions", []),
        "legs": {"quick": quick or [shards()], "thorough": thorough or [shards()]},
    }
    TABLE[pid].update(kw)


prop("C01", "c01",
     "cases = generated registration sequences (profiles sparse-wide/dense/funnel/mixed/batchy/dep-fans/tiny; dyn+static systems, deps, hints, barriers, batches <=3 deep) built into a real dispatcher; "
     "every plan goes through the layout oracle, every 6th is executed 2-3 times on a pool of 1/2/3/4/8/16 threads via dispatch/dispatch_par/dispatch_seq/async under jitter, forced overlap or a scripted interleaving and judged by the event-log oracle. "
     "Executed plans also contain: RunNow::run_now as entry point, async rounds with two back-to-back dispatch requests and a peek (running / world / wait_without_tl) before wait, a system that panics in the first dispatch (caught; ordering and isolation are judged on what ran), registration attempts that fail and are caught between the registrations, and systems with 9..14 writes. "
     "Four times per shard: writers and readers of five distinct resource types that all carry the same type name (block-local types) are dispatched 300 times on a 4-thread pool (no borrow-conflict panic may escape). "
     "A case is counted as distinct non-trivial by (layout hash, pool size, first event-order hash) when the plan has >=1 conflicting pair, the layout has a stage with >=2 groups and >=1 overlap of unordered systems was actually observed in the log.",
     thorough=[shards(name="main"), san("tsan", name="tsan", scale=0.25), miri(rayon=True, name="miri", args=["--tiny"], scale=0.0002)])

prop("C02", "c02",
     "cases = generated plans from dependency-heavy profiles (chains, fans, duplicate names, names from before a barrier, resource-less systems); layout oracle on every plan (dependency strictly earlier in stage or earlier in the same group); "
     "every 4th plan executed with one dependency source parked inside run() (hold driver) until everything the recovered layout lets finish has finished plus a grace period; verdict by the event-log oracle over the transitive dependency relation of the plan. "
     "Plans also come from the wide-stage profile (258..700 registrations most of which touch nothing: one stage of more than 256 groups, then late-comers whose only conflict or dependency is with a far group), range over up to 320 distinct resources (8 types x 40 dynamic ids) with access lists of up to 70 entries, and contain barriers placed after exactly 255..257 / 511..513 registrations. "
     "Every 13th plan is a wide-stage plan (258..700 mostly resource-less systems, 3..12% of them depending on a recent name): dependencies on systems that sit in groups 256+ of one stage. One shard (quick) / four shards (thorough) also build a plan of 2^16+ stages (every filler followed by a barrier) whose last five systems depend on one another: dependants strictly later. "
     "Happens-before probe (thorough tier, decided by the race detectors): the same kind of plans run with systems that touch no atomic of the harness at all - each one reads, non-atomically, the plain cells of everything that must have finished before it (its dependencies, systems in front of an effective barrier, every ordinary system for a thread-local one, its own run in the previous dispatch; the caller reads all cells after dispatch / wait returned) and writes its own cell - under ThreadSanitizer and under Miri: an ordering that holds in time but lacks a happens-before edge (a latch built from relaxed atomics, say) is a data race there, while the event log - whose own atomic operations synchronise the threads it observes - cannot see it. "
     "Dynamic systems come in four flavours (accessor type without a default / with an empty default / with a default that claims every resource - `accessor()` of the instance is what counts - and one whose `accessor()` callback fills another builder while it is being registered); the static menu (17 library types) includes a derived bundle with a library-like name nested in another one and a generic derived bundle used with two type arguments. "
     "distinct non-trivial = (plan hash, driver) with >=1 dependency edge and either a completed hold or >=1 dependency pair checked in the log.",
     thorough=[shards(name="main"), san("tsan", name="tsan-hb", sub="hb", args=["--deps"], scale=3.0), miri(rayon=True, name="miri-hb", sub="hb", args=["--tiny", "--deps"], scale=0.004)])

prop("C03", "c03",
     "cases = generated plans from barrier-heavy profiles (leading, trailing, repeated barriers, unrelated systems on both sides, barriers inside batches); layout oracle: max stage before an effective barrier < min stage after it; "
     "every 4th plan executed with a pre-barrier system parked inside run(); event-log oracle orders every pre/post pair and thread-local systems after everything. "
     "A sixth of the plans are long registration sequences (200..700 systems) whose barriers come after exactly 255..257 / 511..513 registrations; runs of 255..257 / 511..513 / 767..769 / 65535..65537 consecutive add_barrier calls occur in every profile; the 2^16+-stage plan of C02 is checked for its barriers too. "
     "Happens-before probe (thorough tier, decided by the race detectors): the same kind of plans run with systems that touch no atomic of the harness at all - each one reads, non-atomically, the plain cells of everything that must have finished before it (its dependencies, systems in front of an effective barrier, every ordinary system for a thread-local one, its own run in the previous dispatch; the caller reads all cells after dispatch / wait returned) and writes its own cell - under ThreadSanitizer and under Miri: an ordering that holds in time but lacks a happens-before edge (a latch built from relaxed atomics, say) is a data race there, while the event log - whose own atomic operations synchronise the threads it observes - cannot see it. "
     "distinct non-trivial = (plan,layout) in which an effective barrier separates >=1 pair that has neither a conflict nor a dependency.",
     thorough=[shards(name="main"), san("tsan", name="tsan-hb", sub="hb", args=["--barriers"], scale=3.0), miri(rayon=True, name="miri-hb", sub="hb", args=["--tiny", "--barriers"], scale=0.004)])

prop("C07", "c07",
     "cases = generated plans with batches nested 1..3 deep, controllers with empty/read/write/mixed declared data (real library SystemData types), k = 0..3 inner dispatches, HCtl and MultiDispatcher controllers; "
     "layout oracle with the harness's own union of controller data and everything inside; event-log oracle on the batch window against outer systems and C01/C02/C03/C04 oracles re-applied per inner dispatch epoch. "
     "A sixth of the plans use long access lists: systems, controllers and batches with dozens of the 320 resources each, so that the combined list of one group runs to 32..100+ entries. "
     "distinct non-trivial = (plan,layout) with a batch whose inner systems add access beyond the controller's, beside >=1 other outer unit.",
     thorough=[shards(name="main"), miri(rayon=True, name="miri", args=["--tiny"], scale=0.00016)])

prop("C10", "c10",
     "cases = generated plans from every profile incl. 200-600 systems, runs of add_barrier calls whose length sits at a counter-width boundary (255..257, 511..513, 767..769, 65535..65537) and registration attempts that panic and are caught (ill-formed calls; systems whose own accessor / reads / writes / running_time panics while the builder inspects them); pure layout oracle: for every system and every stage it skipped after the first allowed one, search for an earlier-registered conflicting system in that stage or a direct dependency in that stage or later; max_threads() == widest stage (top level and every batch). "
     "distinct non-trivial = (plan,layout) in which >=1 skipped stage had to be justified.")

prop("C12", "c12",
     "cases = generated plans with 1..6 thread-local systems mixed with ordinary systems, barriers and batches (also builders with thread-local systems passed to add_batch); executed every 4th via dispatch / seq+thread_local / async wait under jitter, hold of an ordinary system or forced overlap; "
     "oracle: thread id == caller's, start after every ordinary system's end, registration order, one at a time; layout oracle: thread-local list == registration order. "
     "Two hand-made scenarios every 40th case each: (a) a whole dispatcher with thread-local systems of its own registered as a thread-local system of another dispatcher (nested up to two deep; dispatch / dispatch_seq+dispatch_thread_local / RunNow::run_now): the flattened registration order on the calling thread, once per dispatch; (b) async: a thread-local system panics inside wait() (caught), then wait() again with or without a new dispatch(): every thread-local system runs, from the first one. "
     "Happens-before probe (thorough tier, decided by the race detectors): the same kind of plans run with systems that touch no atomic of the harness at all - each one reads, non-atomically, the plain cells of everything that must have finished before it (its dependencies, systems in front of an effective barrier, every ordinary system for a thread-local one, its own run in the previous dispatch; the caller reads all cells after dispatch / wait returned) and writes its own cell - under ThreadSanitizer and under Miri: an ordering that holds in time but lacks a happens-before edge (a latch built from relaxed atomics, say) is a data race there, while the event log - whose own atomic operations synchronise the threads it observes - cannot see it. "
     "(c) async: while a dispatch is in flight (one system parked) the caller calls setup / a second dispatch / world_mut / wait_without_tl: none of that runs a thread-local system, the wait() that follows runs each once. The event-log oracle also requires a thread-local pass to end before the next dispatch of the same dispatcher (the next inner dispatch of a batch) starts its systems. "
     "An eighth of the dispatchers first go through a setup call in which the setup hook of one of their thread-local systems panics (caught); a dispatcher handed back by a refused try_into_sendable is identified again: same systems, same thread-local order. "
     "distinct non-trivial = (plan hash, driver) with >=1 thread-local window observed beside >=1 ordinary system.",
     thorough=[shards(name="main"), san("tsan", name="tsan-hb", sub="hb", args=["--tl"], scale=3.0), miri(rayon=True, name="miri-hb", sub="hb", args=["--tiny", "--tl"], scale=0.004)])

prop("C04", "c04",
     "cases = generated plans (1..600 systems, funnels that fill groups, dozens to hundreds of stages, batches nested with k=0..3 inner dispatches incl. MultiDispatcher, thread-local systems) x pool 1..16 x a random sequence (length 1..12) of dispatch / dispatch_par / dispatch_seq / dispatch_seq+dispatch_thread_local / dispatch_thread_local calls; "
     "after every call the per-system run counters are compared with a reference count model (batch members multiply by the controller's k along the nesting); a third of the calls on small plans are monitored and the event log is checked (no re-entry, epochs do not overtake, nothing outside the call); the layout must hold every registered system exactly once; SendDispatcher after try_into_sendable likewise. "
     "Call sequences also contain RunNow::run_now and, now and then, a call in which a system panics (caught; counts are re-baselined and every later call is exact again); every 5th case drives the async dispatcher (dispatch requests spaced arbitrarily, wait / wait_without_tl / world / running) under the same count model. "
     "Long histories: on every shard two dispatchers see 2^16+2..40 calls in a row with the count model checked after every single call, and four MultiDispatcher batches whose plan() asks for 255..257 / 65535..65537 rounds are dispatched (sub-systems run exactly that many times). "
     "One call in twelve is made from a destructor that runs while the calling thread unwinds from an unrelated panic; a third of the async histories end with dispatch() followed at once by dropping the dispatcher (the request is still carried out). "
     "distinct non-trivial = (layout hash, call-sequence hash) with >=2 stages or a batch, and a sequence of >=2 calls.")

prop("C19", "c19",
     "cases = generated plans from every profile; recovered layouts (nested lists of registration identities) compared between the original and: an in-process rebuild, a consistent renaming of every system (unnamed stay unnamed), an injective relabelling of all resources not pinned by a static Rust type (across types and dynamic ids), a permutation of every dynamic system's read and write lists, all of these at once, the same sequence without its caught failed registration attempts (they registered nothing), and (every 4th case) a build on a fresh thread that has never built anything. "
     "A second leg re-runs the same cases in another process (fresh ASLR / hash seeds) and in a build of the crate without the `parallel` feature and compares the (plan hash, layout hash) rows of all three. "
     "distinct non-trivial = (plan hash, transformation) where the transformation really changed >=1 name / id / list order.",
     quick=[shards(name="main"), {"kind": "xcfg", "name": "xcfg", "what": "layout"}],
     thorough=[shards(name="main"), {"kind": "xcfg", "name": "xcfg", "what": "layout"}])

prop("C20", "c20",
     "cases = generated builders (names with spaces, dashes, slashes, unicode; 10-60% unnamed systems; batches; empty builders); `{:?}`, `{:#?}` and one spelling with width / precision / fill / sign flags (e.g. `{:.7?}`, `{:24?}`, `{:*>12?}`, `{:+#300?}`) of every builder level (inner builders just before add_batch, the top builder before build) under catch_unwind, parsed with a seq!/par!/seq! grammar and compared positionally with the executed layout (shape hook + identification run): stage/group/size structure, total count, the sanitised name at every position of a named system; an unnamed system may be shown by any token that is not a name handed to this builder for something else. "
     "A fifth of the builders (plus the generator's own share) also see registration attempts that fail and are caught, after which registration continues: unknown dependency, reused name, and systems - named or not - whose own accessor() / reads() / writes() / running_time() panics while the builder inspects them. "
     "Every 64th small plan is dispatched twice with one system that stays inside run for 25 ms, then the executed layout is read again and compared with the text once more (the plan that was printed is the plan that is run - also later); every 500th case formats a builder from the destructor of a thread-local value while its thread exits. "
     "distinct non-trivial = (plan, layout) with a stage of >=2 groups and >=1 unnamed or sanitised name.")

prop("C18", "c18",
     "cases = registration sequences of up to ~600 calls (funnels that fill groups from both sides, running-time hints, hundreds of empty names, names needing sanitising, batches, thread-local, barriers); half of them carry exactly one ill-formed call at a random position: a reused non-empty name, or a dependency on the empty name / a name registered later / a name that only exists inside a batch / its own name / a sanitised spelling / a fresh name. "
     "Every single builder call runs under catch_unwind: panic <=> ill-formed, at that very call, message contains the quoted name; a well-formed sequence must also build(). "
     "After the ill-formed call was rejected the caller repairs it (the original, well-formed item) and carries on with the same builder: the repaired call and all later ones must be accepted and the result must build. Every 12th builder (up to 60 calls) is filled from a destructor during unwinding; a seventh of the dynamic systems register into another builder from inside their `accessor()` callback. "
     "distinct non-trivial = sequence hash with >=20 calls or an ill-formed call that was reached.")

prop("C13", "c13",
     "cases = generated plans with batches nested 0..3 deep (HCtl and MultiDispatcher controllers with library SystemData as declared data), static library-typed systems, dynamic systems and thread-local systems, set up 1..3 times in worlds where a random subset of the 32 resources pre-exists with sentinel values, with inserts/removes and (half of the time) a dispatch between rounds - one that completes or one in which an ordinary, thread-local or batch-member system panics and the caller catches it - then disposed; every 8th case uses AsyncDispatcher::setup, half of those a second time after dispatch + wait in which a thread-local system may panic (caught). "
     "setup and dispose are called through the inherent methods or through the dispatcher's RunNow impl (RunNow::setup, RunNow::dispose on the boxed dispatcher). "
     "Oracles: per-system setup counter == number of setup calls, dispose counter == 1 (any depth, thread-local included); world before/after against a reference (pre-existing values untouched, default-providing accessors create the default, Option/Expect create nothing). "
     "The thorough tier repeats a slice under AddressSanitizer + LeakSanitizer (dispose consumes the boxed systems, batches own an inner dispatcher behind an `unsafe impl Send`: a system that is neither disposed nor dropped is a leak, one handed out twice a double free) and a few dozen cases under Miri. "
     "A tenth of the setup calls and a sixth of the dispose calls are made from a destructor during unwinding; a third of the async cases call setup a second time *while a dispatch is in flight* (one system parked, a helper lets it go once the caller is about to block). "
     "A sixth of the histories contain a setup call in which one system's own setup hook panics (caught; counters are re-based): the next setup call and dispose still reach everything - also on the async dispatcher. "
     "distinct non-trivial = (plan hash, initial-world density) with a batch member or thread-local system and >=1 pre-existing resource.",
     thorough=[shards(name="main"), san("asan", name="asan", scale=0.05), miri(rayon=True, name="miri", scale=0.0001)])

prop("C05", "c05",
     "cases = generated plans (static library-typed and dynamic systems mixed, thread-local systems, batches; few hot slots so that slots have several writers) instantiated twice: a parallel twin (dispatch / dispatch_par on a pool of 1..16 under jitter, forced overlap or a random scripted interleaving of one stage) and a twin run with dispatch_seq; after every one of 2-4 dispatches the order-sensitive world digest (a, b, hist, padding of all 32 slots) and the per-system state digests must be equal; a canary pair (a != b) seen by any system is a torn value. "
     "Every 6th case uses the async dispatcher as the parallel twin (dispatch, optional running()/while running(){}/world()/wait_without_tl(), wait). "
     "The --exhaustive leg enumerates *every* linear extension of the fetch/body/release steps of one small stage (2x1, 3x1, 2+1 systems in quick; up to 4x1, 2x2, 3+1 in thorough) by token passing. "
     "The xcfg leg runs the same cases in a build of the crate *without* the `parallel` feature (dispatch is then sequential by construction) and compares the final digests with the parallel twin's. "
     "Every 13th case is a wide-stage plan (258..340 systems in a stage of more than 256 groups). "
     "distinct non-trivial = (layout hash, overlap/script evidence) where the parallel twin followed a script exactly or >=1 overlap of unordered systems was observed in its log, and some slot has >=2 writers.",
     quick=[shards(name="main"), shards(name="exhaustive", args=["--exhaustive"]), {"kind": "xcfg", "name": "xcfg", "what": "final world+state digest", "builds": ["nopar"]}],
     thorough=[shards(name="main"), shards(name="exhaustive", args=["--exhaustive"]), {"kind": "xcfg", "name": "xcfg", "what": "final world+state digest", "builds": ["nopar"]}, san("tsan", name="tsan", scale=0.25)])

prop("C11", "c11",
     "cases = (stage width w in 2..16, pool size w or 16, context in {user pool, default pool, inside a batch (HCtl or MultiDispatcher), async dispatcher}, with/without a preceding stage) x 30 (quick) / 100 (thorough) dispatches: the heads of all w groups rendezvous inside run (bounded 10 s); a failed rendezvous is a violation only if the control - w plain closures spawned with pool.scope on the same (or an equivalently configured default) pool - completes, otherwise inconclusive. "
     "Variations: default pool with a narrow batch inside the wide stage, one chain group of two systems among the w groups, a warm-up history of 200..3000 trivial dispatches, two back-to-back async requests, dispatch called from a worker of a different 1..2-thread pool. A failed rendezvous is re-run on a fresh dispatcher (whole scenario) before the control decides. "
     "Configurations: every other shard runs with RAYON_NUM_THREADS=3 (the pool a dispatcher makes for itself is then that small; default-pool contexts are capped at that width); a third of the user-pool / batch / async cases attach the pool *after* all registrations (batches included), the batch cases then with a stage wider than any default pool. "
     "Two more contexts: the dispatcher (sendable form, own pool, own world) is driven from inside an ordinary system of another dispatcher that runs on a 1..2-thread pool; and, in a fifth of the user-pool / batch / async cases, a busy neighbour - another dispatcher on another pool and thread whose systems stay inside run for the whole scenario. "
     "distinct non-trivial = (w, pool, context, prefix) with w >= 2 and every rendezvous completed.",
     quick=[shards(nshards=4, max_par=4)], thorough=[shards(nshards=8, max_par=4)])

prop("C14", "c14",
     "cases = generated plans x up to 6 panic positions each (any system in any group/stage, thread-local systems, systems inside batches, batch controllers, panics in the middle of fetching, two victims at once) x dispatch / dispatch_par / dispatch_seq / dispatch_seq+thread_local x sibling phase (siblings of the victim's stage parked before fetch, parked inside run, or already finished at the instant of the panic, by gates). "
     "Oracles: catch_unwind returns Err with the payload token of a system whose injected panic really fired; transitive dependents of it (and of the batches it propagated through) have run count 0; no count above once; every resource cell probes as free; the next dispatch runs every system exactly once in a clean order. "
     "A third of the victims inside a hand-written batch controller meet a controller that catches the inner panic and dispatches its inner dispatcher again in the same frame: that dispatch must run every inner system exactly once. "
     "Injected panics carry a message (String) or, in three of eight cases, a value that is not a message (a struct, an integer) - the payload that reaches the caller must still be the victim's. On every shard one dispatcher that went through a caught panic is then used for 2^16+2..40 further dispatches with the count model checked after every call. "
     "distinct non-trivial = (plan, victim, phase, mode) where the victim fired and has a sibling in its stage or a dependent.",
     level="fault_enumeration",
     thorough=[shards(name="main"), miri(rayon=True, name="miri", args=["--tiny"], scale=0.0005)])

prop("C15", "c15",
     "cases = generated plans built with build_async on pools of 1..16 x random call histories (3..15 ops over dispatch / dispatch with one system parked inside run / running / wait / wait_without_tl / world / world_mut / setup). While a system is provably parked inside run, running() is polled 1..20 times and must be true, then a blocking accessor is called while a helper opens the latch only after the caller announced it is about to block. "
     "Histories also contain while running() {} polling, the deprecated res()/mut_res(); every 40th case is a plan of 257..330 stages. "
     "After every accessor returns: active systems == 0 and completions == dispatches x systems; running()==false only with all completions; dispatch #n returns only when #n-1 is complete; whole-history event log: every system once per epoch, epochs never overtake; thread-local systems only between wait() marks, on the calling thread, once per wait. "
     "Long histories (4 per shard): running() is polled until false once, then 254..256 / 65534..65536 frames of dispatch + wait / wait_without_tl / world, then one more dispatch in which a system is parked inside run while running() is polled 3..30 times (must be true), then wait. "
     "Happens-before probe (thorough tier, decided by the race detectors): the same kind of plans run with systems that touch no atomic of the harness at all - each one reads, non-atomically, the plain cells of everything that must have finished before it (its dependencies, systems in front of an effective barrier, every ordinary system for a thread-local one, its own run in the previous dispatch; the caller reads all cells after dispatch / wait returned) and writes its own cell - under ThreadSanitizer and under Miri: an ordering that holds in time but lacks a happens-before edge (a latch built from relaxed atomics, say) is a data race there, while the event log - whose own atomic operations synchronise the threads it observes - cannot see it. "
     "Every 6th history (pools of 4+ threads) is driven by a worker of the dispatcher's own pool (built, used and dropped inside pool.install). "
     "One history in 97 keeps the parked system parked for 700 ms while the caller is blocked in the accessor. "
     "distinct non-trivial = (plan, history) with >=1 poll of running() on a parked system and >=2 dispatches.",
     thorough=[shards(name="main"), san("tsan", name="tsan", scale=0.25), san("tsan", name="tsan-hb", sub="hb", args=["--async"], scale=3.0), miri(rayon=True, name="miri-hb", sub="hb", args=["--tiny", "--async"], scale=0.004)])

prop("C16", "c16",
     "cases = random trees (depth <=5, fan-out <=6) assembled at run time from the real Par/Seq nodes through a boxing adapter, leaves = self-logging systems over 26 writable + 6 read-only slots, a third of the trees poisoned with one conflicting par-sibling access; conflict-free trees are set up and dispatched 2-3 times on pools 1..16 from outside and from inside the pool (also through RunNow). "
     "Every 8th tree ranges over 128 resources with leaves of up to 12 writes (par nodes mentioning > 64 distinct resources); half of the leaves use an accessor type whose try_new() is Some while accessor() is overridden; setup is called 1..3 times (fresh world / resources removed in between); every 50th case checks that k par leaves rendezvous when dispatch is called from outside, from inside the pool, or from a worker of a different 1-thread pool. "
     "Oracles: Par::with panics (debug assertions are on in this build) <=> the new child conflicts with the children already there; root reads()/writes() == multiset of the leaves'; setup reaches every leaf once; every leaf exactly once per dispatch; within a seq node all leaves of child i end before any leaf of child i+1 enters; conflicting leaves never overlap; every 100th case: k leaves under one par node rendezvous inside run (with a plain-rayon control). "
     "A third of the trees turn some leaves into zero-sized systems (unit structs over library system data; reporting through statics). Every 25th case is one of nine *statically typed* trees built with the par!/seq! macros over concrete leaf types, zero-sized ones at every position (the run-time trees box every child); every 25th case lets a leaf change its run-time access set after it was added (as a script system does in setup): reads()/writes() of the node follow, a later Par::with is judged against what the children declare now. "
     "The statically typed trees include a user-defined zero-sized system that is itself called `Nil`. "
     "distinct non-trivial = tree-shape hash with depth >=2 and both node kinds (or a completed par rendezvous).",
     thorough=[shards(name="main"), miri(rayon=True, name="miri", args=["--tiny"], scale=0.0004)])

prop("C08", "c08",
     "cases = (a) single-thread histories of 60 operations over 3..18 hot resources (some absent): try_fetch(_mut)_by_id on any dynamic id, fetch / fetch_mut / try_fetch / try_fetch_mut, system_data of 14 library SystemData types (first failing member decides; earlier members unwind), Fetch::clone, MetaTable iter (several items kept alive) and iter_mut, drop of a random live guard, scoped unwinding through freshly taken guards, writes through live exclusive guards; after every step the outcome (guard / None / panic kind) must equal the borrow-state reference model, every live guard must still read its model value and the borrow state of all 32 cells (probed via try_fetch_internal) must equal the model. "
     "(b) every 100th case: 2..16 threads hammer 2..4 resources under catch_unwind; a per-slot shadow counter is changed strictly inside each guard's lifetime (exclusive: CAS 0->-1, shared: add must see >=0), writers write a, spin, b, readers check a==b. "
     "(c) fetches made from a destructor that runs while the thread is unwinding from an unrelated panic (the destructor catches the outcome): same rules. (d) every 100th case, a refusal-history check: a holder keeps taking the shared guard, drops it and at once asks for the exclusive one while 1..3 threads keep asking for the exclusive guard; every attempt is stamped on a logical clock before the call, after the return and after the drop; offline, every refusal must be explained by a conflicting guard *granted* to another thread whose possible lifetime [call, drop end] meets the refused call - a failed attempt must leave no trace - and no two conflicting guards may be surely alive (return .. drop start) at one instant. "
     "(e) every 100th case: guards taken on one thread and dropped on another (acknowledged), after which the first thread fetches again - that must succeed. "
     "distinct non-trivial = history hash (or stress run) with >=1 refused and >=1 granted borrow of each kind.",
     crash_is_violation=True,
     thorough=[shards(name="main"), san("tsan", name="tsan", args=["--stress-only"], scale=0.001), miri(name="miri", args=["--small"], scale=0.0002)])

prop("C09", "c09",
     "cases = histories of 80 operations over 9 value types (ZST, u8, [u64;32], String, Vec<u8>, align-16, two drop-tracked types of different size, and Box<dyn Resource> - a resource that is itself a type-erased box around a drop-tracked value) x 3 dynamic ids: insert, insert_by_id, remove, remove_by_id, entry().or_insert(_with), has_value(_raw), get_mut (+overwrite), get_mut_raw, fetch/fetch_mut, try_fetch(_mut), try_fetch(_mut)_by_id (+overwrite), setup of default-providing and of optional/expecting accessors, exec; 15% of the id-taking calls carry a different type argument (different size). "
     "One drop-tracked type has a destructor that can be made to panic: replacing such a value (caught) must still leave the new value in place. "
     "Leaked-guard episodes (mem::forget of a Fetch / FetchMut: safe code): while the guard is leaked presence is unaffected and conflicting by-id fetches panic; insert / insert_by_id over it must succeed and the value it put there must be fetchable exclusively right away (a new value was never borrowed); only calls whose behaviour on a leaked borrow is the same in debug and release builds are made inside an episode. "
     "Oracles: every result against a reference map; after every step has_value_raw == model for all 24 keys and the concrete type_id of every stored box == the key's type; mismatching calls must panic with the wrong-type-id message and change nothing; at the end every tracked value was dropped exactly once. "
     "distinct non-trivial = history hash with >=1 replace, >=1 successful remove and >=1 mismatching-type call.",
     crash_is_violation=True,
     thorough=[shards(name="main"), san("asan", name="asan", scale=0.1), miri(name="miri", scale=0.00008)])

prop("C17", "c17",
     "cases = histories of 70 operations over a MetaTable<dyn Trait> and a world with 12 implementor types (ZST, 1 byte ... 4 KiB, align 16/64, heap-owning): register (with repeats), insert / remove, insert under another dynamic id, get / get_mut on present resources, iter / iter_mut collecting all items, iteration under a live typed exclusive guard, typed writes; every 50th case a CastFrom that returns a different address; every 50th case 2..6 threads use one table at once (lookups of all types through shared fetches, iter() now and then; released together from a spin barrier) and every lookup must denote the very resource it was given. "
     "Iterators are consumed through collect or through skip / step_by / nth / last / take; the wrong cast is also tried on a zero-sized type through get, get_mut, iter and iter_mut. "
     "Oracles: reference registration list (first-registration order) and presence map; get(_mut) is Some <=> registered; every yielded object's self-reported address == the resource's address and its type tag == the concrete type's; iter sequences == [registration order ∩ present under dyn id 0] with model values; shared/exclusive interplay with typed fetches; the bad cast must panic with the library's message. "
     "The thorough tier repeats a quarter of the histories against the crate built with its `nightly` feature (the ptr_metadata implementation of the meta table) on the nightly toolchain. "
     "The bad-cast cases also use a cast that is right at first (conversions through all four paths) and then starts returning another address: rejected on every path, every time. "
     "distinct non-trivial = history hash with a repeated registration and a registered-but-absent type.",
     crash_is_violation=True,
     thorough=[shards(name="main"), san("asan", name="asan", scale=0.1), san("tsan", name="tsan", args=["--concurrent-only"], scale=0.03), miri(name="miri", args=["--small"], scale=0.00016), shards(name="nightly-meta", build="nightlymeta", optional=True, scale=0.25)])

prop("C06", "c06",
     "cases = Rust *programs*: SystemData type expressions generated by gen_c06.py, compiled against /repo and run. Families: (i) rotation - every arity 1..26 x 12 rotations of the member kinds (Read, Write, ReadExpect, WriteExpect, Option<Read>, Option<Write>, (), PhantomData, nested tuple, derived struct, Read/Write with a user-written SetupHandler), position p on its own resource A_p; (ii) random per seed - nestings to depth 3, tuples up to arity 26, derived named and tuple structs with an extra lifetime, redundant where-clauses, hand-written generic derives (type parameters, where-clauses, two lifetimes), repeated reads of one resource and (15%) deliberately conflicting members; (iii) thorough only: the full cross family, every (arity, position, kind) triple as its own type. "
     "For each type: reads()/writes() as sets vs an independent model computed by the generator from the syntax tree; for every presence pattern (all present, each used resource absent, 3 random subsets, empty world) the fetch outcome (value / missing-resource panic / borrow-conflict panic) vs the model, the borrow state of all 26 cells probed while the value is alive (exclusive for writes, shared for reads, free otherwise) and after drop/unwind (all free); setup vs the composition of the members' setups (defaults created iff vacant, existing untouched, Option/Expect create nothing). "
     "Also: a generic derive whose member is a compound of its type parameters (`both: (X, Y)`), derived structs whose names begin like library types (ReadS.., WriteS.., OptionS.., PhantomDataS..), 120 (thorough: 600) derived structs that are all called `Local`, each in a block of its own, and reads()/writes() asked both directly and through `StaticAccessor`. "
     "distinct non-trivial = normalised type expression with >=2 resource-bearing members.",
     quick=[{"kind": "c06"}], thorough=[{"kind": "c06"}], replay_whole=True, crash_is_violation=True, level="exploration")
