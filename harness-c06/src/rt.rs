//! Runtime of the generated C06 type programs: model vs reads()/writes(), borrow-state probe of
//! every resource cell while the fetched value lives / after it is dropped, setup vs model.
#![allow(dead_code)]

use std::collections::BTreeSet;
use std::marker::PhantomData;
use std::panic::{catch_unwind, AssertUnwindSafe};

pub use shred::{PanicHandler, Read, ReadExpect, Resource, ResourceId, SetupHandler, SystemData, World, Write, WriteExpect};

pub const NRES: usize = 26;

macro_rules! def_a {
    ($($n:ident),*) => { $( #[derive(Debug, Default, PartialEq, Clone)] pub struct $n(pub u64); )* };
}
def_a!(A0, A1, A2, A3, A4, A5, A6, A7, A8, A9, A10, A11, A12, A13, A14, A15, A16, A17, A18, A19, A20, A21, A22, A23, A24, A25);

macro_rules! with_a {
    ($i:expr, $T:ident => $e:expr) => {
        match $i {
            0 => { type $T = A0; $e } 1 => { type $T = A1; $e } 2 => { type $T = A2; $e } 3 => { type $T = A3; $e }
            4 => { type $T = A4; $e } 5 => { type $T = A5; $e } 6 => { type $T = A6; $e } 7 => { type $T = A7; $e }
            8 => { type $T = A8; $e } 9 => { type $T = A9; $e } 10 => { type $T = A10; $e } 11 => { type $T = A11; $e }
            12 => { type $T = A12; $e } 13 => { type $T = A13; $e } 14 => { type $T = A14; $e } 15 => { type $T = A15; $e }
            16 => { type $T = A16; $e } 17 => { type $T = A17; $e } 18 => { type $T = A18; $e } 19 => { type $T = A19; $e }
            20 => { type $T = A20; $e } 21 => { type $T = A21; $e } 22 => { type $T = A22; $e } 23 => { type $T = A23; $e }
            24 => { type $T = A24; $e } _ => { type $T = A25; $e }
        }
    };
}

pub trait HasV {
    fn v(&self) -> u64;
    fn mk(v: u64) -> Self;
}
macro_rules! has_v { ($($n:ident),*) => { $( impl HasV for $n { fn v(&self) -> u64 { self.0 } fn mk(v: u64) -> Self { $n(v) } } )* }; }
has_v!(A0, A1, A2, A3, A4, A5, A6, A7, A8, A9, A10, A11, A12, A13, A14, A15, A16, A17, A18, A19, A20, A21, A22, A23, A24, A25);

/// A user-written setup handler ("Read and Write with any setup handler").
pub struct Custom;
pub const CUSTOM_VALUE: u64 = 77;
thread_local! {
    /// how often the user-written handler ran (it does more than create its resource)
    pub static CUSTOM_CALLS: std::cell::Cell<u64> = const { std::cell::Cell::new(0) };
}
impl<T: Resource + HasV> SetupHandler<T> for Custom {
    fn setup(world: &mut World) {
        CUSTOM_CALLS.with(|c| c.set(c.get() + 1));
        if !world.has_value::<T>() {
            world.insert(T::mk(CUSTOM_VALUE));
        }
    }
}

// hand-written generic derives: type parameters, where-clauses, extra lifetimes
#[derive(shred::SystemData)]
pub struct GR<'a, T: Resource + Default>(pub Read<'a, T>);
#[derive(shred::SystemData)]
pub struct GW<'a, T>
where
    T: Resource + Default,
{
    pub w: Write<'a, T>,
}
#[derive(shred::SystemData)]
pub struct GL<'a, 'b, T: Resource> {
    pub r: ReadExpect<'a, T>,
    /// the extra lifetime sits in a member's lifetime position (the only place the derive supports)
    pub o: Option<Read<'b, T>>,
}
#[derive(shred::SystemData)]
pub struct GP<'a, X: SystemData<'a>, Y>
where
    Y: SystemData<'a>,
{
    pub x: X,
    pub y: Y,
    pub z: Option<Read<'a, A25>>,
}

/// A generic derive whose members are a *compound* of its type parameters.
#[derive(shred::SystemData)]
pub struct GT<'a, X: SystemData<'a>, Y: SystemData<'a>> {
    pub both: (X, Y),
    pub z: Option<Read<'a, A25>>,
}

pub fn rid(i: usize) -> ResourceId {
    with_a!(i, T => ResourceId::new::<T>())
}
pub fn insert(w: &mut World, i: usize, v: u64) {
    with_a!(i, T => w.insert(<T as HasV>::mk(v)))
}
pub fn value(w: &World, i: usize) -> Option<u64> {
    with_a!(i, T => w.try_fetch::<T>().map(|g| g.0))
}

#[derive(Clone, Copy, PartialEq, Eq, Debug)]
pub enum Probe {
    Absent,
    Free,
    Shared,
    Excl,
}

pub fn probe(w: &World, i: usize) -> Probe {
    // SAFETY: read-only use of the cell.
    match unsafe { w.try_fetch_internal(rid(i)) } {
        None => Probe::Absent,
        Some(c) => {
            if c.try_borrow_mut().is_ok() {
                Probe::Free
            } else if c.try_borrow().is_ok() {
                Probe::Shared
            } else {
                Probe::Excl
            }
        }
    }
}

/// one flattened leaf member, in fetch order
pub struct Member {
    pub res: u8,
    pub excl: bool,
    pub required: bool,
}
/// a member whose setup creates its resource when vacant
pub struct Creator {
    pub res: u8,
    pub value: u64,
}
pub struct Model {
    pub id: u32,
    pub family: &'static str,
    pub expr: &'static str,
    pub reads: &'static [u8],
    pub writes: &'static [u8],
    pub members: &'static [Member],
    pub creators: &'static [Creator],
    pub bearing: u32,
    pub hash: u64,
}

pub struct Rt {
    pub seed: u64,
    pub part: u64,
    pub evaluations: u64,
    pub types: u64,
    pub patterns: u64,
    pub fetch_ok: u64,
    pub fetch_panics: u64,
    pub setups: u64,
    pub violations: Vec<String>,
    pub violation_count: u64,
    pub kinds: std::collections::BTreeMap<String, u64>,
    pub nontrivial: BTreeSet<u64>,
    pub samples: Vec<String>,
    pub only: Option<u32>,
    /// stop after this many types (interpreter-sized runs)
    pub limit: u64,
    rng: u64,
}

fn esc(s: &str) -> String {
    let mut o = String::new();
    for c in s.chars() {
        match c {
            '"' => o.push_str("\\\""),
            '\\' => o.push_str("\\\\"),
            '\n' => o.push_str("\\n"),
            c if (c as u32) < 0x20 => o.push(' '),
            c => o.push(c),
        }
    }
    o
}

fn payload(p: &(dyn std::any::Any + Send)) -> String {
    if let Some(s) = p.downcast_ref::<&'static str>() {
        s.to_string()
    } else if let Some(s) = p.downcast_ref::<String>() {
        s.clone()
    } else {
        "<payload>".into()
    }
}

#[derive(PartialEq, Debug, Clone, Copy)]
enum Expect {
    Ok,
    Missing,
    Conflict,
}

impl Rt {
    pub fn new(seed: u64, part: u64, only: Option<u32>) -> Rt {
        std::panic::set_hook(Box::new(|_| {}));
        Rt {
            seed,
            part,
            evaluations: 0,
            types: 0,
            patterns: 0,
            fetch_ok: 0,
            fetch_panics: 0,
            setups: 0,
            violations: vec![],
            violation_count: 0,
            kinds: Default::default(),
            nontrivial: BTreeSet::new(),
            samples: vec![],
            only,
            limit: u64::MAX,
            rng: seed ^ 0x9E37_79B9_7F4A_7C15 ^ (part << 32),
        }
    }

    fn next(&mut self) -> u64 {
        self.rng = self.rng.wrapping_add(0x9E37_79B9_7F4A_7C15);
        let mut z = self.rng;
        z = (z ^ (z >> 30)).wrapping_mul(0xBF58_476D_1CE4_E5B9);
        z = (z ^ (z >> 27)).wrapping_mul(0x94D0_49BB_1331_11EB);
        z ^ (z >> 31)
    }

    fn violation(&mut self, m: &Model, kind: &str, msg: String) {
        self.violation_count += 1;
        *self.kinds.entry(kind.to_string()).or_insert(0) += 1;
        if self.violations.len() < 12 {
            self.violations.push(format!(
                "{{\"kind\":\"{}\",\"msg\":\"{}\",\"case\":{},\"replay_cmd\":\"c06 --only {}\",\"detail\":{{\"family\":\"{}\",\"type\":\"{}\"}}}}",
                esc(kind),
                esc(&msg),
                m.id,
                m.id,
                m.family,
                esc(m.expr)
            ));
        }
    }

    /// expected outcome of fetching with the given presence, and the borrow state while alive
    fn expect(m: &Model, present: &[bool; NRES]) -> (Expect, [Probe; NRES]) {
        let mut st = [Probe::Free; NRES];
        for i in 0..NRES {
            if !present[i] {
                st[i] = Probe::Absent;
            }
        }
        for mem in m.members {
            let i = mem.res as usize;
            if !present[i] {
                if mem.required {
                    return (Expect::Missing, st);
                }
                continue;
            }
            if mem.excl {
                if st[i] != Probe::Free {
                    return (Expect::Conflict, st);
                }
                st[i] = Probe::Excl;
            } else {
                if st[i] == Probe::Excl {
                    return (Expect::Conflict, st);
                }
                st[i] = Probe::Shared;
            }
        }
        (Expect::Ok, st)
    }

    pub fn run_case(
        &mut self,
        m: &Model,
        access: &dyn Fn() -> (Vec<ResourceId>, Vec<ResourceId>),
        fetch: &dyn Fn(&World, &mut dyn FnMut(&World)),
        setup: &dyn Fn(&mut World),
    ) {
        if let Some(o) = self.only {
            if o != m.id {
                return;
            }
        }
        if self.types >= self.limit {
            return;
        }
        self.types += 1;
        self.evaluations += 1;
        // ---- reads()/writes() as sets ----
        let (r, w) = access();
        let rs: BTreeSet<ResourceId> = r.iter().cloned().collect();
        let ws: BTreeSet<ResourceId> = w.iter().cloned().collect();
        let mr: BTreeSet<ResourceId> = m.reads.iter().map(|i| rid(*i as usize)).collect();
        let mw: BTreeSet<ResourceId> = m.writes.iter().map(|i| rid(*i as usize)).collect();
        let name = |s: &BTreeSet<ResourceId>| -> Vec<usize> { (0..NRES).filter(|i| s.contains(&rid(*i))).collect() };
        if rs != mr {
            self.violation(m, "reads_differ", format!("reads() reports resources {:?}, the members declare {:?}", name(&rs), name(&mr)));
            return;
        }
        if ws != mw {
            self.violation(m, "writes_differ", format!("writes() reports resources {:?}, the members declare {:?}", name(&ws), name(&mw)));
            return;
        }
        if r.len() != m.reads.len() || w.len() != m.writes.len() {
            // multiset differs (e.g. de-duplicated): allowed by the statement, only noted
        }
        // ---- presence patterns ----
        let used: Vec<usize> = {
            let mut u: Vec<usize> = m.members.iter().map(|x| x.res as usize).collect();
            u.sort();
            u.dedup();
            u
        };
        let mut patterns: Vec<[bool; NRES]> = vec![[true; NRES]];
        for &u in &used {
            let mut p = [true; NRES];
            p[u] = false;
            patterns.push(p);
        }
        for _ in 0..3 {
            let bits = self.next();
            let mut p = [true; NRES];
            for i in 0..NRES {
                p[i] = (bits >> i) & 3 != 0;
            }
            patterns.push(p);
        }
        patterns.push([false; NRES]);
        for present in &patterns {
            self.patterns += 1;
            let mut world = World::empty();
            for i in 0..NRES {
                if present[i] {
                    insert(&mut world, i, 100 + i as u64);
                }
            }
            let (exp, alive) = Self::expect(m, present);
            let mut seen: Option<[Probe; NRES]> = None;
            let res = catch_unwind(AssertUnwindSafe(|| {
                fetch(&world, &mut |w: &World| {
                    let mut st = [Probe::Free; NRES];
                    for i in 0..NRES {
                        st[i] = probe(w, i);
                    }
                    seen = Some(st);
                })
            }));
            let pat: Vec<usize> = (0..NRES).filter(|i| !present[*i]).collect();
            match (&res, exp) {
                (Ok(()), Expect::Ok) => {
                    self.fetch_ok += 1;
                    let st = seen.unwrap();
                    for i in 0..NRES {
                        if st[i] != alive[i] {
                            self.violation(
                                m,
                                if alive[i] == Probe::Free { "borrowed_undeclared" } else if st[i] == Probe::Free { "declared_not_borrowed" } else { "borrow_kind_differs" },
                                format!("while the fetched value is alive (absent resources {:?}) the cell of A{} is {:?}, the declared access implies {:?}", pat, i, st[i], alive[i]),
                            );
                            return;
                        }
                    }
                }
                (Err(p), Expect::Missing) | (Err(p), Expect::Conflict) => {
                    self.fetch_panics += 1;
                    // a panic was due; its wording is not part of the property
                    let _ = payload(&**p);
                }
                (Ok(()), e) => {
                    self.violation(m, "fetch_should_panic", format!("fetch with absent {:?} returned a value although {:?} is expected", pat, e));
                    return;
                }
                (Err(p), Expect::Ok) => {
                    self.violation(m, "fetch_panicked", format!("fetch with absent {:?} panicked: {}", pat, payload(&**p)));
                    return;
                }
            }
            // after drop / unwind: everything released
            for i in 0..NRES {
                let p = probe(&world, i);
                if p != Probe::Free && p != Probe::Absent {
                    self.violation(m, "borrow_leaked", format!("after the value was dropped / the fetch unwound (absent {:?}) the cell of A{} is still {:?}", pat, i, p));
                    return;
                }
            }
            // ---- setup = composition of the members' setups ----
            self.setups += 1;
            let before: Vec<Option<u64>> = (0..NRES).map(|i| value(&world, i)).collect();
            CUSTOM_CALLS.with(|c| c.set(0));
            let r = catch_unwind(AssertUnwindSafe(|| setup(&mut world)));
            if let Err(p) = r {
                self.violation(m, "setup_panicked", format!("setup panicked: {}", payload(&*p)));
                return;
            }
            // every member's setup ran exactly once: the user-written handlers count their calls
            let custom_members = m.creators.iter().filter(|c| c.value == CUSTOM_VALUE).count() as u64;
            let calls = CUSTOM_CALLS.with(|c| c.get());
            if calls != custom_members {
                self.violation(m, "member_setup_not_called_once", format!("setup on a world without {:?}: the {} members with a user-written setup handler had their handler called {} times in total", pat, custom_members, calls));
                return;
            }
            let mut want = before.clone();
            for c in m.creators {
                if want[c.res as usize].is_none() {
                    want[c.res as usize] = Some(c.value);
                }
            }
            let after: Vec<Option<u64>> = (0..NRES).map(|i| value(&world, i)).collect();
            if after != want {
                let i = (0..NRES).find(|i| after[*i] != want[*i]).unwrap();
                let kind = match (before[i], after[i], want[i]) {
                    (Some(_), Some(_), _) => "setup_clobbered",
                    (None, None, Some(_)) => "setup_did_not_create",
                    (None, Some(_), None) => "setup_created_unexpected",
                    _ => "setup_differs",
                };
                self.violation(m, kind, format!("setup on a world without {:?}: A{} is {:?} afterwards, the composition of the members' setups gives {:?} (before: {:?})", pat, i, after[i], want[i], before[i]));
                return;
            }
        }
        if m.bearing >= 2 {
            self.nontrivial.insert(m.hash);
        }
        if self.samples.len() < 3 && m.bearing >= 3 && m.expr.len() < 400 {
            self.samples.push(format!(
                "{{\"family\":\"{}\",\"type\":\"{}\",\"reads\":{:?},\"writes\":{:?},\"presence_patterns\":{}}}",
                m.family,
                esc(m.expr),
                m.reads,
                m.writes,
                patterns.len()
            ));
        }
    }

    pub fn finish(&self, out: Option<String>, wall: f64) {
        let kinds: Vec<String> = self.kinds.iter().map(|(k, v)| format!("\"{}\":{}", esc(k), v)).collect();
        let nt: Vec<String> = self.nontrivial.iter().map(|h| format!("\"{:016x}\"", h)).collect();
        let s = format!(
            "{{\"prop\":\"c06\",\"seed\":{},\"shard\":{},\"evaluations\":{},\"nontrivial\":[{}],\"samples\":[{}],\"violations\":[{}],\"violation_count\":{},\"violation_kinds\":{{{}}},\"inconclusive\":0,\"metrics\":{{\"types\":{},\"presence_patterns\":{},\"fetches_ok\":{},\"fetches_panicking_as_expected\":{},\"setups\":{}}},\"sets\":{{}},\"notes\":[],\"stopped_by_time\":false,\"wall_s\":{}}}",
            self.seed,
            self.part,
            self.evaluations,
            nt.join(","),
            self.samples.join(","),
            self.violations.join(","),
            self.violation_count,
            kinds.join(","),
            self.types,
            self.patterns,
            self.fetch_ok,
            self.fetch_panics,
            self.setups,
            wall
        );
        match out {
            Some(p) => std::fs::write(p, s).expect("write"),
            None => println!("{}", s),
        }
    }
}

#[macro_export]
macro_rules! check {
    ($rt:expr, $model:expr, $ty:ty) => {
        $rt.run_case(
            &$model,
            &|| {
                // as a system would be asked (through the accessor of a static system data type)
                // and directly: both ways must say the same
                let (r, w) = (<$ty as SystemData>::reads(), <$ty as SystemData>::writes());
                let acc = <shred::StaticAccessor<$ty> as shred::Accessor>::try_new().expect("static accessor");
                let (ra, wa) = (shred::Accessor::reads(&acc), shred::Accessor::writes(&acc));
                if ra != r || wa != w {
                    // make the disagreement visible to the comparison with the model
                    let mut r2 = r.clone();
                    r2.extend(ra);
                    let mut w2 = w.clone();
                    w2.extend(wa);
                    return (r2, w2);
                }
                (r, w)
            },
            &|w: &World, alive: &mut dyn FnMut(&World)| {
                let v = <$ty as SystemData>::fetch(w);
                alive(w);
                drop(v);
            },
            &|w: &mut World| <$ty as SystemData>::setup(w),
        )
    };
}

pub fn main_with(parts: &[fn(&mut Rt)]) {
    let args: Vec<String> = std::env::args().collect();
    let mut seed = 1u64;
    let mut part = 0u64;
    let mut out = None;
    let mut only = None;
    let mut limit = u64::MAX;
    let mut i = 1;
    while i < args.len() {
        match args[i].as_str() {
            "--seed" => {
                seed = args[i + 1].parse().unwrap_or(1);
                i += 1;
            }
            "--part" => {
                part = args[i + 1].parse().unwrap_or(0);
                i += 1;
            }
            "--out" => {
                out = Some(args[i + 1].clone());
                i += 1;
            }
            "--only" => {
                only = args[i + 1].parse().ok();
                i += 1;
            }
            "--limit" => {
                limit = args[i + 1].parse().unwrap_or(u64::MAX);
                i += 1;
            }
            _ => {}
        }
        i += 1;
    }
    let t0 = std::time::Instant::now();
    let mut rt = Rt::new(seed, part, only);
    rt.limit = limit;
    for p in parts {
        p(&mut rt);
    }
    rt.finish(out, t0.elapsed().as_secs_f64());
}
