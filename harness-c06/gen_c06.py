#!/usr/bin/env python3
"""Generator of the C06 type programs.

Writes a cargo project (copy of this directory's Cargo.toml / rt.rs plus generated src/bin/g<k>.rs)
into --out.  Every generated case is a real Rust type built from the library's SystemData
constructors, together with an *independent* model of its access (computed here, from the syntax
tree): reads, writes, flattened members in fetch order, setup creators.
"""
import argparse
import hashlib
import os
import random
import shutil

HERE = os.path.dirname(os.path.abspath(__file__))
NRES = 26
CUSTOM = 77

LEAF = {
    # kind: (rust template, reads, writes, excl, required, creates)
    "Read": ("Read<{lt}, A{p}>", True, False, False, True, 0),
    "Write": ("Write<{lt}, A{p}>", False, True, True, True, 0),
    "ReadExpect": ("ReadExpect<{lt}, A{p}>", True, False, False, True, None),
    "WriteExpect": ("WriteExpect<{lt}, A{p}>", False, True, True, True, None),
    "OptRead": ("Option<Read<{lt}, A{p}>>", True, False, False, False, None),
    "OptWrite": ("Option<Write<{lt}, A{p}>>", False, True, True, False, None),
    "ReadC": ("Read<{lt}, A{p}, Custom>", True, False, False, True, CUSTOM),
    "WriteC": ("Write<{lt}, A{p}, Custom>", False, True, True, True, CUSTOM),
    "OptReadP": ("Option<Read<{lt}, A{p}, PanicHandler>>", True, False, False, False, None),
    "GR": ("GR<{lt}, A{p}>", True, False, False, True, 0),
    "GW": ("GW<{lt}, A{p}>", False, True, True, True, 0),
    "Unit": ("()", False, False, False, False, None),
    "Phantom": ("PhantomData<A{p}>", False, False, False, False, None),
}
BEARING = [k for k, v in LEAF.items() if v[1] or v[2]]


class T:
    def __init__(self, kind, p=0, kids=None, name=None, style=None):
        self.kind, self.p, self.kids, self.name, self.style = kind, p, kids or [], name, style

    def render(self, lt):
        if self.kind in LEAF:
            return LEAF[self.kind][0].format(lt=lt, p=self.p)
        if self.kind == "Tuple":
            return "(" + "".join(k.render(lt) + ", " for k in self.kids) + ")"
        if self.kind == "GP":
            # third kid = the struct's own Option<Read<A25>> member
            return "GP<%s, %s, %s>" % (lt, self.kids[0].render(lt), self.kids[1].render(lt))
        if self.kind == "GT":
            return "GT<%s, %s, %s>" % (lt, self.kids[0].render(lt), self.kids[1].render(lt))
        if self.kind == "GL":
            return "GL<%s, %s, A%d>" % (lt, lt, self.p)
        if self.kind == "Derive":
            lts = [lt] * (2 if self.style.get("extra_lt") else 1)
            return "%s<%s>" % (self.name, ", ".join(lts))
        raise ValueError(self.kind)

    def leaves(self):
        if self.kind in LEAF:
            return [self]
        out = []
        for k in self.kids:
            out += k.leaves()
        return out

    def derives(self):
        out = []
        for k in self.kids:
            out += k.derives()
        if self.kind == "Derive":
            out.append(self)
        return out

    def has_lifetime(self):
        if self.kind in LEAF:
            return "{lt}" in LEAF[self.kind][0]
        if self.kind in ("Derive", "GP", "GL", "GT"):
            return True
        return any(k.has_lifetime() for k in self.kids)

    def two_lifetimes_inside(self):
        if self.kind == "GL" or (self.kind == "Derive" and self.style.get("extra_lt")):
            return True
        return any(k.two_lifetimes_inside() for k in self.kids)

    def depth(self):
        return 0 if self.kind in LEAF else 1 + max([k.depth() for k in self.kids] + [0])


def derive_def(d):
    """Definition of a derived struct: members use 'a; an extra lifetime 'b is carried by a
    PhantomData<&'b ()> member (PhantomData is itself a provided SystemData type)."""
    fields = [k.render("'a") for k in d.kids]
    extra = d.style.get("extra_lt")
    generics = "<'a, 'b>" if extra else "<'a>"
    if d.style["tuple"]:
        body = ["pub " + f for f in fields]
        if extra:
            body.append("pub PhantomData<&'b ()>")
        return "#[derive(shred::SystemData)]\npub struct %s%s(%s);\n" % (d.name, generics, ", ".join(body))
    body = ["pub f%d: %s" % (i, f) for i, f in enumerate(fields)]
    if extra:
        body.append("pub marker_b: PhantomData<&'b ()>")
    where = ""
    if d.style.get("where") and fields:
        # a redundant but legal where-clause on a member type
        where = "\nwhere\n    %s: shred::SystemData<'a>," % d.kids[0].render("'a")
    return "#[derive(shred::SystemData)]\npub struct %s%s%s {\n%s\n}\n" % (d.name, generics, where, "".join("    %s,\n" % b for b in body))


class Gen:
    def __init__(self, seed):
        self.rng = random.Random(seed)
        self.nderive = 0
        self.cases = []  # (family, T)

    def derive(self, kids, **style):
        self.nderive += 1
        st = {"tuple": False, "extra_lt": False, "where": False}
        st.update(style)
        if not any(k.has_lifetime() for k in kids):
            kids = kids + [T("OptRead", NRES - 1)]
        # the derive cannot nest a two-lifetime struct inside another two-lifetime struct
        if st["extra_lt"] and any(k.two_lifetimes_inside() for k in kids):
            st["extra_lt"] = False
        prefix = self.rng.choice(["S", "S", "S", "ReadS", "WriteS", "ReadWriteS", "OptionS", "PhantomDataS", "FetchS", "WriteExpectS"])
        return T("Derive", kids=kids, name="%s%d" % (prefix, self.nderive), style=st)

    # ---- systematic families ----
    ROT = ["Read", "Write", "ReadExpect", "WriteExpect", "OptRead", "OptWrite", "Unit", "Phantom", "NESTED", "DERIVED", "ReadC", "WriteC"]

    def member(self, kind, p):
        if kind == "NESTED":
            return T("Tuple", kids=[T("Read", p), T("Unit")])
        if kind == "DERIVED":
            return self.derive([T("Write", p)], tuple=(p % 2 == 1))
        return T(kind, p)

    def rotation(self):
        for n in range(1, 27):
            for j in range(len(self.ROT)):
                kids = [self.member(self.ROT[(p + j) % len(self.ROT)], p) for p in range(n)]
                self.cases.append(("rotation", T("Tuple", kids=kids)))

    def cross(self):
        for n in range(1, 27):
            for p in range(n):
                for k in self.ROT:
                    kids = [T("Read", q) for q in range(n)]
                    kids[p] = self.member(k, p)
                    self.cases.append(("cross", T("Tuple", kids=kids)))

    # ---- random family ----
    def rand_type(self, depth, allow_conflict):
        r = self.rng
        if depth == 0 or r.random() < 0.35:
            kind = r.choice(list(LEAF.keys()))
            return T(kind, r.randrange(NRES))
        c = r.random()
        if c < 0.5:
            n = r.choice([1, 2, 2, 3, 3, 4, 5, 6, 9, 13, 26]) if depth >= 2 else r.choice([1, 2, 3])
            return T("Tuple", kids=[self.rand_type(depth - 1, allow_conflict) for _ in range(n)])
        if c < 0.85:
            n = r.choice([0, 1, 2, 3, 4, 7])
            return self.derive([self.rand_type(depth - 1, allow_conflict) for _ in range(n)], tuple=r.random() < 0.4, extra_lt=r.random() < 0.3, where=r.random() < 0.3)
        if r.random() < 0.3:
            p = r.randrange(NRES)
            return T("GL", p, kids=[T("ReadExpect", p), T("OptRead", p)])
        return T(r.choice(["GP", "GT"]), kids=[self.rand_type(depth - 1, allow_conflict), self.rand_type(depth - 1, allow_conflict), T("OptRead", NRES - 1)])

    def holders(self, t, out):
        """label holders in fetch order: (node, writes?, fixed?)"""
        if t.kind == "GL":
            out.append((t, False, False))
            return
        if t.kind in LEAF:
            if LEAF[t.kind][1] or LEAF[t.kind][2]:
                out.append((t, LEAF[t.kind][2], False))
            return
        for i, k in enumerate(t.kids):
            if t.kind in ("GP", "GT") and i == 2:
                out.append((k, False, True))  # the struct's own Option<Read<A25>>: a Rust type, not relabelled
            else:
                self.holders(k, out)

    def assign(self, t):
        """Gives every member a resource such that nothing written is used twice (readers may share)."""
        hs = []
        self.holders(t, hs)
        written, used = set(), set()
        for node, w, fixed in hs:
            if fixed:
                used.add(node.p)
        for node, w, fixed in hs:
            if fixed:
                continue
            if w:
                free = [q for q in range(NRES) if q not in used]
            else:
                free = [q for q in range(NRES) if q not in written]
            if not free:
                return False
            q = self.rng.choice(free)
            node.p = q
            if node.kind == "GL":
                for k in node.kids:
                    k.p = q
            used.add(q)
            if w:
                written.add(q)
        return True

    def same_named_family(self, count):
        """derived structs that are all called `Local`, each in a block of its own"""
        for _ in range(count):
            n = self.rng.choice([1, 1, 2, 3])
            kids = [T(self.rng.choice(["Read", "Write", "ReadExpect", "OptWrite", "ReadC"]), 0) for _ in range(n)]
            t = self.derive(kids)
            t.style["extra_lt"] = False
            if self.assign(t):
                self.cases.append(("same-named", t))

    def random_family(self, count):
        made = 0
        while made < count:
            allow_conflict = self.rng.random() < 0.15
            t = self.rand_type(3, allow_conflict)
            if t.kind in LEAF and self.rng.random() < 0.8:
                continue
            if not allow_conflict and not self.assign(t):
                continue
            self.cases.append(("random", t))
            made += 1


def model_of(t):
    reads, writes, members, creators = [], [], [], []
    bearing = 0
    for l in t.leaves():
        tpl, r, w, excl, req, creates = LEAF[l.kind]
        if r:
            reads.append(l.p)
        if w:
            writes.append(l.p)
        if r or w:
            bearing += 1
            members.append((l.p, excl, req))
        if creates is not None:
            creators.append((l.p, creates))
    return reads, writes, members, creators, bearing


def emit(outdir, seed, tier, parts):
    g = Gen(seed)
    g.rotation()
    if tier == "thorough":
        g.cross()
        g.random_family(9000)
        g.same_named_family(600)
    else:
        g.random_family(500)
        g.same_named_family(120)
    cases = g.cases
    os.makedirs(os.path.join(outdir, "src", "bin"), exist_ok=True)
    for f in ("Cargo.toml", "Cargo.lock"):
        shutil.copy(os.path.join(HERE, f), os.path.join(outdir, f))
    os.makedirs(os.path.join(outdir, ".cargo"), exist_ok=True)
    shutil.copy(os.path.join(HERE, ".cargo", "config.toml"), os.path.join(outdir, ".cargo", "config.toml"))
    shutil.copy(os.path.join(HERE, "src", "rt.rs"), os.path.join(outdir, "src", "rt.rs"))
    for f in os.listdir(os.path.join(outdir, "src", "bin")):
        os.remove(os.path.join(outdir, "src", "bin", f))
    per = (len(cases) + parts - 1) // parts
    for k in range(parts):
        chunk = list(enumerate(cases))[k * per:(k + 1) * per]
        src = ["#![allow(dead_code, unused_imports, non_camel_case_types, clippy::all)]", "#[path = \"../rt.rs\"]", "#[macro_use]", "mod rt;", "use rt::*;", "use std::marker::PhantomData;", ""]
        fns = []
        body = []
        for cid, (family, t) in chunk:
            for d in t.derives():
                if family == "same-named" and d is t:
                    continue
                src.append(derive_def(d))
            reads, writes, members, creators, bearing = model_of(t)
            expr = t.render("'_")
            h = int.from_bytes(hashlib.blake2b(expr.encode(), digest_size=8).digest(), "big")
            src.append(
                "static M{cid}: Model = Model {{ id: {cid}, family: \"{fam}\", expr: \"{expr}\", reads: &{reads}, writes: &{writes}, members: &[{members}], creators: &[{creators}], bearing: {bearing}, hash: {h:#x} }};".format(
                    cid=cid, fam=family, expr=expr.replace('"', "'") if len(expr) < 1500 else expr[:1500] + "...", reads=reads, writes=writes,
                    members=", ".join("Member { res: %d, excl: %s, required: %s }" % (p, str(e).lower(), str(r).lower()) for p, e, r in members),
                    creators=", ".join("Creator { res: %d, value: %d }" % c for c in creators), bearing=bearing, h=h))
            if family == "same-named":
                # the definition lives in a block of its own: several types of one function share
                # the name (and the printed type name) `Local`
                local = derive_def(t).replace(t.name, "Local")
                body.append("    {\n%s    check!(rt, M%d, Local<'_>);\n    }" % ("".join("        " + l + "\n" for l in local.splitlines()), cid))
            else:
                body.append("    check!(rt, M%d, %s);" % (cid, expr))
            if len(body) >= 25:
                fns.append(body)
                body = []
        if body:
            fns.append(body)
        for i, b in enumerate(fns):
            src.append("fn part%d(rt: &mut Rt) {\n%s\n}" % (i, "\n".join(b)))
        src.append("fn main() {\n    main_with(&[%s]);\n}" % ", ".join("part%d" % i for i in range(len(fns))))
        with open(os.path.join(outdir, "src", "bin", "g%d.rs" % k), "w") as f:
            f.write("\n".join(src) + "\n")
    return len(cases)


if __name__ == "__main__":
    ap = argparse.ArgumentParser()
    ap.add_argument("--seed", type=int, default=1)
    ap.add_argument("--tier", default="quick")
    ap.add_argument("--out", required=True)
    ap.add_argument("--parts", type=int, default=4)
    a = ap.parse_args()
    n = emit(a.out, a.seed, a.tier, a.parts)
    print(n)
