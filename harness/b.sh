#!/bin/sh
# dev helper: build and show only this crate's diagnostics
cd /verif/harness && CARGO_TARGET_DIR=/verif/target cargo build --release --offline --message-format short 2>&1 | grep -v "^/repo\|^warning: .shred\|Compiling\|Finished" | grep -E "^src/|error" | head -${1:-40}
