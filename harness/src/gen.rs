//! Seeded generator of registration sequences (plans), by profile.

use crate::plan::*;
use crate::res::*;
use crate::rng::Rng;
use crate::sys::{menu_slots, N_MENU};

#[derive(Clone, Copy, Debug, PartialEq, Eq)]
pub enum Profile {
    SparseWide,
    Dense,
    Funnel,
    DepChains,
    DepFans,
    BarrierHeavy,
    Batchy,
    Huge,
    Names,
    Mixed,
    Tiny,
    /// hundreds of systems that mostly touch nothing: one stage with more than 256 groups, then
    /// late-comers whose only conflict / dependency is with one of the far groups
    WideStage,
}

pub const ALL_PROFILES: [Profile; 11] = [
    Profile::SparseWide,
    Profile::Dense,
    Profile::Funnel,
    Profile::DepChains,
    Profile::DepFans,
    Profile::BarrierHeavy,
    Profile::Batchy,
    Profile::Huge,
    Profile::Names,
    Profile::Mixed,
    Profile::WideStage,
];

impl Profile {
    pub fn name(self) -> &'static str {
        match self {
            Profile::SparseWide => "sparse-wide",
            Profile::Dense => "dense",
            Profile::Funnel => "funnel",
            Profile::DepChains => "dep-chains",
            Profile::DepFans => "dep-fans",
            Profile::BarrierHeavy => "barrier-heavy",
            Profile::Batchy => "batchy",
            Profile::Huge => "huge",
            Profile::Names => "names",
            Profile::Mixed => "mixed",
            Profile::Tiny => "tiny",
            Profile::WideStage => "wide-stage",
        }
    }
}

#[derive(Clone, Debug)]
pub struct LevelCfg {
    pub n: (usize, usize),
    pub slots: Vec<Slot>,
    pub max_r: usize,
    pub max_w: usize,
    /// percent of systems with no resource at all
    pub p_noaccess: usize,
    pub p_dep: usize,
    pub max_deps: usize,
    pub p_dup_dep: usize,
    /// percent chance that a dependency may be drawn from before the last barrier
    pub p_old_dep: usize,
    pub p_barrier: usize,
    pub edge_barriers: bool,
    pub p_static: usize,
    pub p_batch: usize,
    pub depth_left: usize,
    pub tl: (usize, usize),
    pub p_unnamed: usize,
    pub fancy_names: bool,
    pub times: Vec<u8>,
    pub max_batches: usize,
    pub p_multi: usize,
    /// percent of dynamic systems with a very wide access set (9..14 writes)
    pub p_wide: usize,
    /// percent chance per position of a registration attempt that fails and is caught
    pub p_failed: usize,
    /// percent chance that a barrier position holds a long run of `add_barrier` calls whose length
    /// sits at a counter-width boundary (255..257, 511..513, rarely 65535..65537)
    pub p_barrier_run: usize,
    /// barriers are (also) placed so that the number of registrations since the previous barrier
    /// sits at a counter-width boundary (255..257, 511..513)
    pub seg_boundary: bool,
}

impl LevelCfg {
    pub fn base() -> LevelCfg {
        LevelCfg {
            n: (3, 12),
            slots: Slot::all().collect(),
            max_r: 3,
            max_w: 2,
            p_noaccess: 5,
            p_dep: 15,
            max_deps: 2,
            p_dup_dep: 0,
            p_old_dep: 30,
            p_barrier: 5,
            edge_barriers: false,
            p_static: 20,
            p_batch: 0,
            depth_left: 0,
            tl: (0, 0),
            p_unnamed: 10,
            fancy_names: false,
            times: vec![1, 2, 3, 3, 3, 4, 5],
            max_batches: 3,
            p_multi: 25,
            p_wide: 1,
            p_failed: 2,
            p_barrier_run: 2,
            seg_boundary: false,
        }
    }
}

pub fn cfg_for(p: Profile, rng: &mut Rng) -> LevelCfg {
    let mut c = LevelCfg::base();
    let all: Vec<Slot> = Slot::all().collect();
    match p {
        Profile::SparseWide => {
            c.n = (4, 24);
            c.max_r = 2;
            c.max_w = 1;
            c.p_dep = 5;
            c.p_static = 10;
        }
        Profile::Dense => {
            c.n = (4, 20);
            let k = rng.range(2, 5);
            c.slots = pick_slots(rng, &all, k);
            c.max_r = 2;
            c.max_w = 2;
            c.p_static = 15;
        }
        Profile::Funnel => {
            c.n = (8, 40);
            let k = rng.range(2, 3);
            c.slots = pick_slots(rng, &all, k);
            c.max_r = 1;
            c.max_w = 1;
            c.p_dep = 3;
            c.p_static = 0;
            c.times = vec![1, 1, 1, 2, 2, 3, 5, 5];
            c.p_noaccess = 3;
        }
        Profile::DepChains => {
            c.n = (4, 18);
            c.p_dep = 60;
            c.max_deps = 2;
            c.p_dup_dep = 15;
            c.p_noaccess = 50;
            c.p_barrier = 6;
            c.p_old_dep = 50;
            c.p_unnamed = 5;
        }
        Profile::DepFans => {
            c.n = (5, 20);
            c.p_dep = 45;
            c.max_deps = 5;
            c.p_dup_dep = 10;
            c.p_noaccess = 35;
            c.p_barrier = 4;
            c.p_old_dep = 40;
        }
        Profile::BarrierHeavy => {
            c.n = (4, 18);
            c.p_barrier = 30;
            c.edge_barriers = true;
            c.p_dep = 8;
            c.max_r = 2;
            c.max_w = 1;
            c.p_noaccess = 30;
        }
        Profile::Batchy => {
            c.n = (2, 8);
            c.p_batch = 35;
            c.depth_left = rng.range(1, 3);
            c.tl = (0, 2);
            c.p_barrier = 8;
            let k = rng.range(4, 12);
            c.slots = pick_slots(rng, &all, k);
        }
        Profile::Huge => {
            c.n = (200, 600);
            c.p_dep = 4;
            c.p_dup_dep = 12;
            c.p_wide = 0;
            c.p_barrier = 1;
            c.p_static = 5;
            if rng.chance(1, 2) {
                let k = rng.range(3, 8);
                c.slots = pick_slots(rng, &all, k);
            }
            c.seg_boundary = rng.chance(1, 3);
        }
        Profile::WideStage => {
            c.n = (258, 700);
            c.p_noaccess = rng.range(30, 97);
            c.slots = Slot::all_ext().collect();
            c.max_r = 1;
            c.max_w = 1;
            c.p_dep = rng.range(1, 6);
            c.max_deps = 1;
            c.p_old_dep = 10;
            c.p_static = 0;
            c.p_wide = 1;
            c.p_barrier = 0;
            c.p_unnamed = 30;
            c.seg_boundary = rng.chance(1, 3);
        }
        Profile::Names => {
            c.n = (3, 14);
            c.fancy_names = true;
            c.p_unnamed = 30;
            c.p_batch = 10;
            c.depth_left = 1;
        }
        Profile::Mixed => {
            c.n = (3, 30);
            c.p_dep = rng.range(0, 40);
            c.p_dup_dep = rng.range(0, 10);
            c.p_barrier = rng.range(0, 15);
            c.edge_barriers = rng.chance(1, 3);
            c.p_static = rng.range(0, 40);
            c.p_batch = rng.range(0, 20);
            c.depth_left = rng.range(0, 2);
            c.tl = (0, 3);
            c.p_unnamed = rng.range(0, 30);
            c.p_noaccess = rng.range(0, 30);
            let k = rng.range(2, NSTD);
            c.slots = pick_slots(rng, &all, k);
            c.max_r = rng.range(0, 4);
            c.max_w = rng.range(0, 3);
        }
        Profile::Tiny => {
            c.n = (2, 6);
            let k = rng.range(1, 4);
            c.slots = pick_slots(rng, &all, k);
            c.p_dep = 20;
            c.p_barrier = 8;
            c.p_static = 25;
            c.max_r = 2;
            c.max_w = 1;
        }
    }
    c
}

pub fn pick_slots(rng: &mut Rng, all: &[Slot], k: usize) -> Vec<Slot> {
    let mut v = all.to_vec();
    rng.shuffle(&mut v);
    v.truncate(k.max(1).min(all.len()));
    v
}

pub struct Gen<'r> {
    pub rng: &'r mut Rng,
    pub next_uid: u32,
    pub batches: usize,
}

const FANCY: [&str; 16] = [
    "my system", "a-b", "path/to/sys", "a b-c/d", "ünïcode", "x_y", " lead", "trail ", "--", "a/b", "a b", "a-b c", "/", "//x", "-", "q/r-s",
];

impl<'r> Gen<'r> {
    pub fn new(rng: &'r mut Rng) -> Gen<'r> {
        // uid 0 is reserved for the dispatch marks
        Gen { rng, next_uid: 1, batches: 0 }
    }

    fn uid(&mut self) -> u32 {
        let u = self.next_uid;
        self.next_uid += 1;
        u
    }

    fn subset(&mut self, pool: &[Slot], max: usize) -> Vec<Slot> {
        if max == 0 || pool.is_empty() {
            return vec![];
        }
        let k = self.rng.range(0, max.min(pool.len()));
        let mut v = pool.to_vec();
        self.rng.shuffle(&mut v);
        v.truncate(k);
        v
    }

    pub fn level(&mut self, c: &LevelCfg) -> Plan {
        let n = self.rng.range(c.n.0, c.n.1);
        let mut items = Vec::new();
        // names of units registered so far at this level: (name, after_last_barrier)
        let mut named: Vec<(String, bool)> = Vec::new();
        if c.edge_barriers {
            for _ in 0..self.rng.range(0, 2) {
                items.push(Item::Barrier);
            }
        }
        let ntl = self.rng.range(c.tl.0, c.tl.1);
        let mut tl_left = ntl;
        const SEG: [usize; 8] = [255, 256, 256, 256, 257, 511, 512, 513];
        let mut seg_target = if c.seg_boundary { *self.rng.pick(&SEG) } else { usize::MAX };
        let mut since_barrier = 0usize;
        for i in 0..n {
            if since_barrier == seg_target {
                items.push(Item::Barrier);
                for x in named.iter_mut() {
                    x.1 = false;
                }
                since_barrier = 0;
                seg_target = *self.rng.pick(&SEG);
            }
            if c.p_failed > 0 && self.rng.chance(c.p_failed, 100) {
                let k = self.failed_kind();
                items.push(Item::Failed(k));
            }
            if i > 0 && self.rng.chance(c.p_barrier, 100) {
                let reps = if c.p_barrier_run > 0 && self.rng.chance(c.p_barrier_run, 100) {
                    // as many barriers as a narrow counter holds, one less, one more
                    let base = *self.rng.pick(&[256usize, 256, 256, 512, 512, 768, 65536]);
                    base + self.rng.below(3) - 1
                } else if c.edge_barriers && self.rng.chance(1, 4) {
                    2
                } else {
                    1
                };
                for _ in 0..reps {
                    items.push(Item::Barrier);
                }
                // the call right after a barrier is rejected now and then
                if c.p_failed > 0 && self.rng.chance(1, 6) {
                    let k = self.failed_kind();
                    items.push(Item::Failed(k));
                }
                for x in named.iter_mut() {
                    x.1 = false;
                }
                since_barrier = 0;
            }
            since_barrier += 1;
            // thread-local registrations are sprinkled between the others
            if tl_left > 0 && self.rng.chance(1, 4) {
                tl_left -= 1;
                items.push(Item::Tl(self.tl_spec(c)));
            }
            let uid = self.uid();
            let name = self.name(uid, c);
            let deps = self.deps(&named, c);
            let time = *self.rng.pick(&c.times);
            let make_batch = c.depth_left > 0 && self.batches < c.max_batches && self.rng.chance(c.p_batch, 100);
            if make_batch {
                self.batches += 1;
                let mut ic = c.clone();
                ic.depth_left = c.depth_left - 1;
                ic.n = (1, 5);
                ic.edge_barriers = self.rng.chance(1, 4);
                // barriers inside a batch's builder (none / some / several)
                ic.p_barrier = *self.rng.pick(&[0usize, c.p_barrier, 20, 45]);
                ic.tl = (0, if self.rng.chance(1, 3) { 2 } else { 0 });
                ic.fancy_names = false;
                let mut inner = self.level(&ic);
                // thread-local systems inside a batch cannot declare access: they touch nothing
                for it in inner.items.iter_mut() {
                    if let Item::Tl(t) = it {
                        t.reads.clear();
                        t.writes.clear();
                    }
                }
                let multi = self.rng.chance(c.p_multi, 100);
                items.push(Item::Batch(BatchSpec {
                    uid,
                    name: name.clone(),
                    deps,
                    ctl_menu: self.rng.below(N_MENU as usize) as u8,
                    k: [0u32, 1, 1, 1, 2, 2, 3][self.rng.below(7)],
                    multi,
                    time,
                    inner,
                }));
            } else if self.rng.chance(c.p_static, 100) {
                let m = self.rng.below(N_MENU as usize) as u8;
                let (r, w) = menu_slots(m);
                items.push(Item::Sys(SysSpec { uid, name: name.clone(), deps, reads: r, writes: w, time, kind: Kind::Static(m) }));
            } else {
                let (r, w) = if self.rng.chance(c.p_noaccess, 100) {
                    (vec![], vec![])
                } else if c.p_wide > 0 && self.rng.chance(c.p_wide, 100) {
                    // a system with a very wide access set (more ids than any small-vector or
                    // bit-set shortcut in the library would hold), listed in arbitrary order
                    let ext = c.slots.iter().any(|s| !s.is_std());
                    let mut all: Vec<Slot> = if ext { Slot::all_ext().collect() } else { Slot::all().collect() };
                    self.rng.shuffle(&mut all);
                    let nw = if ext { self.rng.range(9, 40) } else { self.rng.range(9, 14) };
                    let nr = if ext { self.rng.range(0, 30) } else { self.rng.range(0, 13) };
                    let w: Vec<Slot> = all[..nw].to_vec();
                    let r: Vec<Slot> = all[nw..nw + nr].to_vec();
                    (r, w)
                } else {
                    let w = self.subset(&c.slots, c.max_w);
                    let pool: Vec<Slot> = c.slots.iter().filter(|s| !w.contains(s)).cloned().collect();
                    let r = self.subset(&pool, c.max_r);
                    (r, w)
                };
                items.push(Item::Sys(SysSpec { uid, name: name.clone(), deps, reads: r, writes: w, time, kind: Kind::Dyn }));
            }
            if !name.is_empty() {
                named.push((name, true));
            }
        }
        while tl_left > 0 {
            tl_left -= 1;
            items.push(Item::Tl(self.tl_spec(c)));
        }
        if c.edge_barriers {
            for _ in 0..self.rng.range(0, 2) {
                items.push(Item::Barrier);
            }
        }
        Plan { items }
    }

    /// which way a caught registration attempt fails (see `Item::Failed`)
    fn failed_kind(&mut self) -> u8 {
        if self.rng.chance(3, 5) {
            self.rng.below(2) as u8
        } else {
            (2 + self.rng.below(4)) as u8 | if self.rng.chance(1, 2) { FAILED_NAMED } else { 0 }
        }
    }

    fn tl_spec(&mut self, c: &LevelCfg) -> TlSpec {
        let uid = self.uid();
        let w = self.subset(&c.slots, 1);
        let pool: Vec<Slot> = c.slots.iter().filter(|s| !w.contains(s)).cloned().collect();
        let r = self.subset(&pool, 2);
        TlSpec { uid, reads: r, writes: w }
    }

    fn name(&mut self, uid: u32, c: &LevelCfg) -> String {
        if self.rng.chance(c.p_unnamed, 100) {
            return String::new();
        }
        if c.fancy_names && self.rng.chance(1, 2) {
            // unique because of the uid suffix; contains characters that need sanitising
            // with and without an added space, so that names containing only one kind of
            // separator (only '/', only '-', only ' ') occur as well
            match self.rng.below(3) {
                0 => format!("{} {}", self.rng.pick(&FANCY), uid),
                1 => format!("{}{}", self.rng.pick(&FANCY), uid),
                _ => format!("{}{}", uid, self.rng.pick(&FANCY)),
            }
        } else {
            format!("s{}", uid)
        }
    }

    fn deps(&mut self, named: &[(String, bool)], c: &LevelCfg) -> Vec<String> {
        let mut deps = Vec::new();
        if named.is_empty() || !self.rng.chance(c.p_dep, 100) {
            return deps;
        }
        let k = self.rng.range(1, c.max_deps.max(1));
        let old_ok = self.rng.chance(c.p_old_dep, 100);
        let pool: Vec<&String> = named.iter().filter(|x| x.1 || old_ok).map(|x| &x.0).collect();
        if pool.is_empty() {
            return deps;
        }
        for _ in 0..k {
            // prefer recent ones (chains) half of the time
            let d = if self.rng.chance(1, 2) {
                pool[pool.len() - 1 - self.rng.below(pool.len().min(3))]
            } else {
                pool[self.rng.below(pool.len())]
            };
            if !deps.contains(d) {
                deps.push(d.clone());
            }
        }
        if !deps.is_empty() && self.rng.chance(c.p_dup_dep, 100) {
            let d = deps[self.rng.below(deps.len())].clone();
            let at = self.rng.below(deps.len() + 1);
            deps.insert(at, d);
        }
        deps
    }
}

pub fn gen_plan(rng: &mut Rng, p: Profile) -> Plan {
    let c = cfg_for(p, rng);
    Gen::new(rng).level(&c)
}

pub fn gen_with(rng: &mut Rng, c: &LevelCfg) -> Plan {
    Gen::new(rng).level(c)
}
