//! Building a plan into a real dispatcher and running monitored dispatches.

use std::collections::HashMap;
use std::panic::{catch_unwind, AssertUnwindSafe};
use std::sync::Arc;

use shred::{Dispatcher, World};

use crate::ctx::*;
use crate::layout::{recover, Layout};
use crate::plan::*;
use crate::res::full_world_with;
use crate::sys::{instantiate, make_pool, Pool};

#[derive(Clone, Copy, PartialEq, Eq, Debug)]
pub enum DMode {
    /// `dispatch` (parallel part + thread-local)
    Dispatch,
    /// `dispatch_par` only
    Par,
    /// `dispatch_seq` only
    Seq,
    /// `dispatch_seq` then `dispatch_thread_local`
    SeqTl,
    /// `dispatch_thread_local` only
    TlOnly,
    /// `RunNow::run_now` on the dispatcher (documented as: same as `dispatch`)
    RunNow,
}

impl DMode {
    pub fn name(self) -> &'static str {
        match self {
            DMode::Dispatch => "dispatch",
            DMode::Par => "dispatch_par",
            DMode::Seq => "dispatch_seq",
            DMode::SeqTl => "dispatch_seq+tl",
            DMode::TlOnly => "dispatch_thread_local",
            DMode::RunNow => "RunNow::run_now",
        }
    }
    pub fn runs_tl(self) -> bool {
        matches!(self, DMode::Dispatch | DMode::SeqTl | DMode::TlOnly | DMode::RunNow)
    }
    pub fn runs_units(self) -> bool {
        !matches!(self, DMode::TlOnly)
    }
    pub fn parallel(self) -> bool {
        matches!(self, DMode::Dispatch | DMode::Par | DMode::RunNow)
    }
    pub fn outer(self) -> &'static str {
        if self.parallel() {
            "par"
        } else {
            "seq"
        }
    }
}

/// Number of events one top-level dispatch can log (upper bound) and number of system runs.
pub fn plan_runs(plan: &Plan) -> (usize, usize) {
    fn go(p: &Plan, mult: usize, ev: &mut usize, runs: &mut usize) {
        for it in &p.items {
            match it {
                Item::Sys(_) => {
                    *ev += 5 * mult;
                    *runs += mult;
                }
                Item::Tl(_) => {
                    *ev += 4 * mult;
                    *runs += mult;
                }
                Item::Batch(b) => {
                    *ev += (8 + 2 * b.k as usize) * mult;
                    *runs += mult;
                    go(&b.inner, mult * b.k as usize, ev, runs);
                }
                Item::Barrier | Item::Failed(_) => {}
            }
        }
    }
    let (mut e, mut r) = (0, 0);
    go(plan, 1, &mut e, &mut r);
    (e + 16, r)
}

/// Expected run count of every uid for one call in mode `m` (reference count model).
pub fn expected_counts(plan: &Plan, m: DMode, n_uids: usize) -> Vec<u32> {
    fn go(p: &Plan, mult: u32, top: bool, m: DMode, v: &mut Vec<u32>) {
        for it in &p.items {
            match it {
                Item::Sys(s) => {
                    if !top || m.runs_units() {
                        v[s.uid as usize] += mult;
                    }
                }
                Item::Tl(t) => {
                    // inside a batch the controller always dispatches thread-local systems too
                    if !top || m.runs_tl() {
                        v[t.uid as usize] += mult;
                    }
                }
                Item::Batch(b) => {
                    if !top || m.runs_units() {
                        v[b.uid as usize] += mult;
                        go(&b.inner, mult * b.k as u32, false, m, v);
                    }
                }
                Item::Barrier | Item::Failed(_) => {}
            }
        }
    }
    let mut v = vec![0u32; n_uids];
    go(plan, 1, true, m, &mut v);
    v
}

pub struct Pools {
    cache: HashMap<usize, Pool>,
}

impl Pools {
    pub fn new() -> Pools {
        Pools { cache: HashMap::new() }
    }
    pub fn get(&mut self, n: usize) -> Pool {
        self.cache.entry(n).or_insert_with(|| make_pool(n)).clone()
    }
}

impl Default for Pools {
    fn default() -> Self {
        Self::new()
    }
}

pub struct Inst {
    pub plan: Plan,
    pub ctx: Arc<Ctx>,
    pub disp: Option<Dispatcher<'static, 'static>>,
    pub world: World,
    pub layout: Layout,
    pub max_threads: Option<usize>,
    pub pool_size: usize,
}

pub struct RunOut {
    pub events: Vec<Event>,
    /// payload of a panic that escaped the dispatch call
    pub panic: Option<String>,
    pub overflow: bool,
    pub caller: u16,
}

/// Builds the plan on a fresh builder (panics are reported as Err), recovers the layout.
pub fn build(plan: &Plan, pool: Option<&Pool>, pool_size: usize, extra_log: usize) -> Result<Inst, String> {
    let (ev, _) = plan_runs(plan);
    let ctx = Ctx::new(plan.n_uids().max(1), ev + extra_log);
    let ctx2 = ctx.clone();
    let r = catch_unwind(AssertUnwindSafe(|| instantiate(plan, &ctx2, pool).build()));
    let mut disp = match r {
        Ok(d) => d,
        Err(p) => return Err(format!("builder panicked: {}", payload_str(&*p))),
    };
    let world = full_world_with(plan.slots_used().into_iter());
    let layout = recover(&mut disp, &ctx, &world).map_err(|e| format!("LAYOUT:{}", e))?;
    #[cfg(feature = "parallel")]
    let mt = Some(disp.max_threads());
    #[cfg(not(feature = "parallel"))]
    let mt = None;
    Ok(Inst { plan: plan.clone(), ctx, disp: Some(disp), world, layout, max_threads: mt, pool_size })
}

impl Inst {
    pub fn d(&mut self) -> &mut Dispatcher<'static, 'static> {
        self.disp.as_mut().expect("dispatcher present")
    }

    /// One monitored top-level call. The log is reset first; events of this call are returned.
    pub fn run(&mut self, m: DMode, driver: Arc<dyn Driver>) -> RunOut {
        let ctx = self.ctx.clone();
        ctx.log.reset();
        ctx.arm(driver);
        ctx.set_mode(Mode::Run);
        let caller = tid();
        ctx.disp_begin();
        let world = &self.world;
        let d = self.disp.as_mut().expect("dispatcher present");
        let r = catch_unwind(AssertUnwindSafe(|| call(d, world, m)));
        ctx.disp_end();
        ctx.set_mode(Mode::Build);
        ctx.disarm();
        RunOut {
            events: ctx.log.since(0),
            panic: r.err().map(|p| payload_str(&*p)),
            overflow: ctx.log.overflow.load(std::sync::atomic::Ordering::SeqCst),
            caller,
        }
    }

    /// Like `run_quiet`, but the call is made from a destructor that runs while the calling thread
    /// is unwinding from an unrelated panic.
    pub fn run_quiet_during_unwind(&mut self, m: DMode) -> Option<String> {
        let ctx = self.ctx.clone();
        ctx.set_mode(Mode::Quiet);
        let world = &self.world;
        let d = self.disp.as_mut().expect("dispatcher present");
        let r = during_unwind(|| call(d, world, m));
        ctx.set_mode(Mode::Build);
        r.err()
    }

    /// Unmonitored call (counters, real borrows and payload work only).
    pub fn run_quiet(&mut self, m: DMode) -> Option<String> {
        let ctx = self.ctx.clone();
        ctx.set_mode(Mode::Quiet);
        let world = &self.world;
        let d = self.disp.as_mut().expect("dispatcher present");
        let r = catch_unwind(AssertUnwindSafe(|| call(d, world, m)));
        ctx.set_mode(Mode::Build);
        r.err().map(|p| payload_str(&*p))
    }
}

/// A long history: `n` unmonitored calls in a row on one dispatcher. After every single call every
/// system must have run exactly as often as the count model says (counters that wrap, caches
/// that go stale after thousands of calls). Returns the first deviation (call index, message).
pub fn soak(inst: &mut Inst, m: DMode, n: usize) -> Option<(usize, String)> {
    use std::sync::atomic::Ordering::SeqCst;
    let per = expected_counts(&inst.plan, m, inst.plan.n_uids());
    let mut want = inst.ctx.run_counts();
    for i in 0..n {
        if let Some(p) = inst.run_quiet(m) {
            return Some((i, format!("call #{} of the history panicked: {}", i + 1, p)));
        }
        for (u, w) in want.iter_mut().enumerate() {
            *w += per[u];
            let got = inst.ctx.runs[u].load(SeqCst);
            if got != *w {
                return Some((i, format!("after call #{} of the history ({}) system u{} has run {} times, the count model says {}", i + 1, m.name(), u, got, *w)));
            }
        }
    }
    None
}

pub fn call(d: &mut Dispatcher<'static, 'static>, world: &World, m: DMode) {
    match m {
        DMode::Dispatch => d.dispatch(world),
        #[cfg(feature = "parallel")]
        DMode::Par => d.dispatch_par(world),
        #[cfg(not(feature = "parallel"))]
        DMode::Par => d.dispatch_seq(world),
        DMode::Seq => d.dispatch_seq(world),
        DMode::SeqTl => {
            d.dispatch_seq(world);
            d.dispatch_thread_local(world);
        }
        DMode::TlOnly => d.dispatch_thread_local(world),
        DMode::RunNow => shred::RunNow::run_now(d, world),
    }
}

/// Smallest pool that lets every group of every stage (and of every nested inner stage that can be
/// active at the same time) have its own thread: sum over the nesting chain of (width - 1) + 1,
/// maximised over chains. Used to decide whether rendezvous / scripts may be armed.
pub fn threads_needed(layout: &Layout) -> usize {
    fn go(l: &Layout) -> usize {
        let mut best = l.width().max(1);
        for st in &l.stages {
            // all batches of one stage can be active together
            let w = st.len();
            let mut extra = 0usize;
            for g in st {
                // only one member of a group is active at a time: take the most demanding
                let mut gmax = 0usize;
                for u in g {
                    if let Some(Some(inner)) = l.batches.get(u) {
                        gmax = gmax.max(go(inner).saturating_sub(1));
                    }
                }
                extra += gmax;
            }
            best = best.max(w + extra);
        }
        best
    }
    go(layout)
}
