//! Recovery of the layout that is really executed: shape hook + one identification run.

use std::collections::{BTreeMap, HashMap};
use std::sync::Arc;

use shred::{Dispatcher, World};

use crate::ctx::*;
use crate::json::J;
use crate::rng::mix;

#[derive(Clone, Debug, PartialEq, Default)]
pub struct Layout {
    /// stages[stage][group][pos] = uid
    pub stages: Vec<Vec<Vec<u32>>>,
    pub tls: Vec<u32>,
    /// inner layouts of batches registered at this level (None for MultiDispatcher batches,
    /// whose inner dispatcher is not reachable from the controller)
    pub batches: BTreeMap<u32, Option<Layout>>,
    /// max_threads() reported for inner dispatchers (usize::MAX = unknown)
    pub max_threads: BTreeMap<u32, usize>,
}

impl Layout {
    pub fn pos(&self) -> HashMap<u32, (usize, usize, usize)> {
        let mut m = HashMap::new();
        for (si, st) in self.stages.iter().enumerate() {
            for (gi, g) in st.iter().enumerate() {
                for (pi, u) in g.iter().enumerate() {
                    m.insert(*u, (si, gi, pi));
                }
            }
        }
        m
    }

    pub fn n_units(&self) -> usize {
        self.stages.iter().flatten().map(|g| g.len()).sum()
    }

    pub fn width(&self) -> usize {
        self.stages.iter().map(|s| s.len()).max().unwrap_or(0)
    }

    /// widest stage anywhere in the tree
    pub fn width_deep(&self) -> usize {
        let mut w = self.width();
        for l in self.batches.values().flatten() {
            w = w.max(l.width_deep());
        }
        w
    }

    pub fn shape(&self) -> Vec<Vec<usize>> {
        self.stages.iter().map(|s| s.iter().map(|g| g.len()).collect()).collect()
    }

    /// Hash of the nested uid lists (recursively). Two builds of one plan use the same uids, so
    /// equal hashes <=> equal layouts as lists of registration identities.
    pub fn hash(&self) -> u64 {
        let mut h = 0x1a70u64;
        for st in &self.stages {
            h = mix(h, 0xf1);
            for g in st {
                h = mix(h, 0xf2);
                for u in g {
                    h = mix(h, *u as u64);
                }
            }
        }
        h = mix(h, 0xf3);
        for t in &self.tls {
            h = mix(h, *t as u64);
        }
        for (u, l) in &self.batches {
            h = mix(h, *u as u64);
            h = mix(h, l.as_ref().map(|l| l.hash()).unwrap_or(0));
        }
        h
    }

    /// Has some stage with >= 2 groups (anywhere in the tree)?
    pub fn has_parallel_stage(&self) -> bool {
        self.width_deep() >= 2
    }

    pub fn to_json(&self) -> J {
        let mut o = J::obj().set(
            "stages",
            J::Arr(
                self.stages
                    .iter()
                    .map(|st| J::Arr(st.iter().map(|g| J::from(g.clone())).collect()))
                    .collect(),
            ),
        );
        if !self.tls.is_empty() {
            o.put("tl", J::from(self.tls.clone()));
        }
        if !self.batches.is_empty() {
            let mut b = J::obj();
            for (u, l) in &self.batches {
                b.put(&format!("{}", u), l.as_ref().map(|l| l.to_json()).unwrap_or(J::Str("multi (inner not reachable)".into())));
            }
            o.put("batches", b);
        }
        o
    }

    /// Compact one-line rendering: `[a b|c][d]` = stage1 groups (a,b) and (c), stage2 (d)
    pub fn brief(&self) -> String {
        let mut s = String::new();
        for st in &self.stages {
            s.push('[');
            for (gi, g) in st.iter().enumerate() {
                if gi > 0 {
                    s.push('|');
                }
                s.push_str(&g.iter().map(|u| u.to_string()).collect::<Vec<_>>().join(" "));
            }
            s.push(']');
        }
        if !self.tls.is_empty() {
            s.push_str(&format!(" tl{:?}", self.tls));
        }
        s
    }
}

fn parse(
    shape: &[Vec<usize>],
    ntl: usize,
    evs: &mut std::iter::Peekable<std::vec::IntoIter<IdentEv>>,
) -> Result<Layout, String> {
    let mut l = Layout::default();
    for st in shape {
        let mut stage = Vec::new();
        for &gl in st {
            let mut group = Vec::new();
            for _ in 0..gl {
                match evs.next() {
                    Some(IdentEv::Sys(u)) => group.push(u),
                    Some(IdentEv::BatchBegin(u, ishape, intl, mt)) => {
                        if intl == usize::MAX {
                            l.batches.insert(u, None);
                        } else {
                            let inner = parse(&ishape, intl, evs)?;
                            l.batches.insert(u, Some(inner));
                            l.max_threads.insert(u, mt);
                        }
                        match evs.next() {
                            Some(IdentEv::BatchEnd(e)) if e == u => {}
                            other => return Err(format!("identification: expected end of batch {}, got {:?}", u, other)),
                        }
                        group.push(u);
                    }
                    other => return Err(format!("identification: expected a system, got {:?}", other)),
                }
            }
            stage.push(group);
        }
        l.stages.push(stage);
    }
    for _ in 0..ntl {
        match evs.next() {
            Some(IdentEv::Tl(u)) => l.tls.push(u),
            other => return Err(format!("identification: expected a thread-local system, got {:?}", other)),
        }
    }
    Ok(l)
}

pub fn parse_ident(shape: &[Vec<usize>], ntl: usize, evs: Vec<IdentEv>) -> Result<Layout, String> {
    let mut it = evs.into_iter().peekable();
    let l = parse(shape, ntl, &mut it)?;
    if let Some(e) = it.next() {
        return Err(format!("identification: {:?} ran beyond what the shape accounts for", e));
    }
    Ok(l)
}

/// Shape hook + one `dispatch_seq` / `dispatch_thread_local` identification run.
/// An `Err` means the executed structure disagrees with the reported shape (an exactly-once /
/// structure problem), which callers report under C04.
pub fn recover(d: &mut Dispatcher<'static, 'static>, ctx: &Arc<Ctx>, world: &World) -> Result<Layout, String> {
    let (shape, ntl) = d.verif_shape();
    let old = ctx.mode();
    ctx.set_mode(Mode::Identify);
    let _ = ctx.take_ident();
    d.dispatch_seq(world);
    d.dispatch_thread_local(world);
    ctx.set_mode(old);
    parse_ident(&shape, ntl, ctx.take_ident())
}
