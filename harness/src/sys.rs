//! Harness systems: self-identifying, self-logging systems that take *real* borrows through
//! shred's public API, plus the instantiation of a `Plan` into a real `DispatcherBuilder`.

use std::marker::PhantomData;
use std::rc::Rc;
use std::sync::atomic::Ordering::*;
use std::sync::Arc;

use shred::{
    Accessor, AccessorCow, BatchController, Dispatcher, DispatcherBuilder, DynamicSystemData,
    MultiDispatchController, MultiDispatcher, Read, ReadExpect, ResourceId, RunNow, RunningTime,
    StaticAccessor, System, SystemData, World, Write, WriteExpect,
};

use crate::ctx::*;
use crate::plan::*;
use crate::res::*;
use crate::rng::mix;

pub fn running_time(t: u8) -> RunningTime {
    match t {
        1 => RunningTime::VeryShort,
        2 => RunningTime::Short,
        3 => RunningTime::Average,
        4 => RunningTime::Long,
        _ => RunningTime::VeryLong,
    }
}

fn s(ty: usize) -> Slot {
    Slot::new(ty, 0)
}

// ------------------------------------------------------------------------------------------------
// The common body of every harness system
// ------------------------------------------------------------------------------------------------

/// Accumulates what a system saw and computes what it writes. Non-commutative on purpose.
pub struct Body<'c> {
    pub ctx: &'c Ctx,
    pub uid: u32,
    pub rd: u64,
    pub obs: u64,
}

impl<'c> Body<'c> {
    pub fn new(ctx: &'c Ctx, uid: u32, obs: u64) -> Self {
        Body { ctx, uid, rd: 0x0bad_cafe, obs }
    }
    pub fn read(&mut self, slot: Slot, p: &dyn Pay) {
        let (a, b) = (p.a(), p.b());
        if a != b {
            self.ctx.torn.fetch_add(1, SeqCst);
            self.ctx.violation(format!("torn read: u{} read {} a={:x} b={:x}", self.uid, slot.label(), a, b));
        }
        self.rd = mix(mix(self.rd, slot.0 as u64), mix(a, p.hist()));
    }
    pub fn write(&mut self, slot: Slot, p: &mut dyn Pay) {
        let (a, b) = (p.a(), p.b());
        if a != b {
            self.ctx.torn.fetch_add(1, SeqCst);
            self.ctx.violation(format!("torn value under exclusive guard: u{} {} a={:x} b={:x}", self.uid, slot.label(), a, b));
        }
        let x = mix(mix(a, self.uid as u64), self.rd);
        p.set(x, self.ctx.spin.load(Relaxed));
        let h = mix(p.hist(), x);
        p.set_hist(h);
        self.obs = mix(self.obs, mix(slot.0 as u64, x));
    }
    pub fn finish(mut self) -> u64 {
        self.obs = mix(self.obs, self.rd);
        self.ctx.obs[self.uid as usize].store(self.obs, SeqCst);
        self.obs
    }
}

fn maybe_panic(ctx: &Ctx, uid: u32, what: u8) {
    // one-shot: the fault fires once, a retry by the caller sees a healthy system
    if ctx.inject[uid as usize].compare_exchange(what, INJ_NONE, SeqCst, SeqCst).is_ok() {
        let t = ctx.next_token();
        ctx.fired[uid as usize].fetch_add(1, SeqCst);
        ctx.panic_fired.fetch_add(1, SeqCst);
        // the payload of a panic is whatever the system chose: a message, or any other value
        match mix(t, uid as u64) % 8 {
            0 | 1 => std::panic::panic_any(InjectedPayload { uid, token: t }),
            2 => std::panic::panic_any(((uid as u64) << 32) | (t & 0xffff_ffff)),
            _ => std::panic::panic_any(format!("INJECTED-PANIC uid={} token={}", uid, t)),
        }
    }
}

// ------------------------------------------------------------------------------------------------
// Dynamic system
// ------------------------------------------------------------------------------------------------

pub struct HAcc {
    pub uid: u32,
    pub rslots: Vec<Slot>,
    pub wslots: Vec<Slot>,
    pub ctx: Arc<Ctx>,
}

impl Accessor for HAcc {
    fn try_new() -> Option<Self> {
        None
    }
    fn reads(&self) -> Vec<ResourceId> {
        self.rslots.iter().map(|s| s.rid()).collect()
    }
    fn writes(&self) -> Vec<ResourceId> {
        self.wslots.iter().map(|s| s.rid()).collect()
    }
}

pub struct HData<'a> {
    uid: u32,
    ctx: Arc<Ctx>,
    rd: Vec<(Slot, RGuard<'a>)>,
    wr: Vec<(Slot, WGuard<'a>)>,
}

impl<'a> DynamicSystemData<'a> for HData<'a> {
    type Accessor = HAcc;

    fn setup(acc: &HAcc, world: &mut World) {
        for s in acc.rslots.iter().chain(acc.wslots.iter()) {
            if !world.has_value_raw(s.rid()) {
                insert_default(world, *s);
            }
        }
    }

    fn fetch(acc: &HAcc, world: &'a World) -> Self {
        let ctx = &acc.ctx;
        let uid = acc.uid;
        let mut d = HData { uid, ctx: ctx.clone(), rd: Vec::new(), wr: Vec::new() };
        if matches!(ctx.mode(), Mode::Identify | Mode::Hb) {
            return d;
        }
        ctx.gate(uid, Gate::PreFetch);
        ctx.ev(Ev::FetchEnter, uid, 0);
        for s in &acc.rslots {
            match fetch_r(world, *s) {
                Some(g) => d.rd.push((*s, g)),
                None => ctx.violation(format!("harness: slot {} missing for u{}", s.label(), uid)),
            }
        }
        // injected fault in the middle of fetching: the shared guards taken so far must unwind
        maybe_panic(ctx, uid, INJ_PANIC_FETCH);
        for s in &acc.wslots {
            match fetch_w(world, *s) {
                Some(g) => d.wr.push((*s, g)),
                None => ctx.violation(format!("harness: slot {} missing for u{}", s.label(), uid)),
            }
        }
        ctx.ev(Ev::FetchDone, uid, 0);
        ctx.gate(uid, Gate::PostFetch);
        d
    }
}

pub struct HSys {
    pub acc: HAcc,
    pub time: u8,
    obs: u64,
}

impl HSys {
    pub fn new(sp: &SysSpec, ctx: &Arc<Ctx>) -> HSys {
        HSys {
            acc: HAcc { uid: sp.uid, rslots: sp.reads.clone(), wslots: sp.writes.clone(), ctx: ctx.clone() },
            time: sp.time,
            obs: 0,
        }
    }
}

impl<'a> System<'a> for HSys {
    type SystemData = HData<'a>;

    fn run(&mut self, mut data: HData<'a>) {
        let ctx = data.ctx.clone();
        let uid = data.uid;
        if ctx.mode() == Mode::Identify {
            ctx.ident_push(IdentEv::Sys(uid));
            return;
        }
        if ctx.mode() == Mode::Hb {
            let v = ctx.hb_enter(uid);
            ctx.hb_leave(uid, v);
            return;
        }
        ctx.gate(uid, Gate::PreRun);
        ctx.ev(Ev::RunStart, uid, 0);
        ctx.active.fetch_add(1, SeqCst);
        ctx.runs[uid as usize].fetch_add(1, SeqCst);
        ctx.last_thread[uid as usize].store(tid() as u32, SeqCst);
        let mut b = Body::new(&ctx, uid, self.obs);
        for (sl, g) in data.rd.iter() {
            b.read(*sl, g.pay());
        }
        for (sl, g) in data.wr.iter_mut() {
            b.write(*sl, g.pay_mut());
        }
        self.obs = b.finish();
        maybe_panic(&ctx, uid, INJ_PANIC_RUN);
        ctx.ends[uid as usize].fetch_add(1, SeqCst);
        ctx.ev(Ev::RunEnd, uid, 0);
        ctx.gate(uid, Gate::PostRun);
        ctx.gate(uid, Gate::PreRelease);
        ctx.ev(Ev::Released, uid, 0);
        drop(data);
        ctx.finished.fetch_add(1, SeqCst);
        ctx.active.fetch_sub(1, SeqCst);
        ctx.gate(uid, Gate::PostRelease);
    }

    fn running_time(&self) -> RunningTime {
        running_time(self.time)
    }

    fn accessor<'b>(&'b self) -> AccessorCow<'a, 'b, Self> {
        AccessorCow::Ref(&self.acc)
    }

    fn setup(&mut self, world: &mut World) {
        self.acc.ctx.setups[self.acc.uid as usize].fetch_add(1, SeqCst);
        self.acc.ctx.ev(Ev::Setup, self.acc.uid, 0);
        HData::setup(&self.acc, world);
        maybe_panic(&self.acc.ctx, self.acc.uid, INJ_PANIC_SETUP);
    }

    fn dispose(self, _world: &mut World) {
        self.acc.ctx.disposes[self.acc.uid as usize].fetch_add(1, SeqCst);
        self.acc.ctx.ev(Ev::Dispose, self.acc.uid, 0);
    }
}

/// Accessor type with a (useless, empty) default: `try_new()` is `Some`. A system is free to
/// override `System::accessor()` all the same; everything must then go by what `accessor()` says.
pub struct HAccD(pub HAcc);

fn dummy_ctx() -> Arc<Ctx> {
    static D: std::sync::OnceLock<Arc<Ctx>> = std::sync::OnceLock::new();
    D.get_or_init(|| Ctx::new(1, 1)).clone()
}

impl Accessor for HAccD {
    fn try_new() -> Option<Self> {
        Some(HAccD(HAcc { uid: 0, rslots: vec![], wslots: vec![], ctx: dummy_ctx() }))
    }
    fn reads(&self) -> Vec<ResourceId> {
        self.0.reads()
    }
    fn writes(&self) -> Vec<ResourceId> {
        self.0.writes()
    }
}

pub struct HDataD<'a>(HData<'a>);

impl<'a> DynamicSystemData<'a> for HDataD<'a> {
    type Accessor = HAccD;
    fn setup(acc: &HAccD, world: &mut World) {
        HData::setup(&acc.0, world)
    }
    fn fetch(acc: &HAccD, world: &'a World) -> Self {
        HDataD(HData::fetch(&acc.0, world))
    }
}

pub struct HSysD {
    inner: HSys,
    accd: HAccD,
}

impl HSysD {
    pub fn new(sp: &SysSpec, ctx: &Arc<Ctx>) -> HSysD {
        HSysD {
            inner: HSys::new(sp, ctx),
            accd: HAccD(HAcc { uid: sp.uid, rslots: sp.reads.clone(), wslots: sp.writes.clone(), ctx: ctx.clone() }),
        }
    }
}

impl<'a> System<'a> for HSysD {
    type SystemData = HDataD<'a>;
    fn run(&mut self, data: HDataD<'a>) {
        self.inner.run(data.0)
    }
    fn running_time(&self) -> RunningTime {
        self.inner.running_time()
    }
    fn accessor<'b>(&'b self) -> AccessorCow<'a, 'b, Self> {
        AccessorCow::Ref(&self.accd)
    }
    fn setup(&mut self, world: &mut World) {
        System::setup(&mut self.inner, world)
    }
    fn dispose(self, world: &mut World) {
        System::dispose(self.inner, world)
    }
}

/// Accessor type with a *wide* default (it claims to write every standard slot): `try_new()` is `Some`. A system is free to
/// override `System::accessor()` all the same; everything must then go by what `accessor()` says.
pub struct HAccW(pub HAcc);

impl Accessor for HAccW {
    fn try_new() -> Option<Self> {
        Some(HAccW(HAcc { uid: 0, rslots: vec![], wslots: Slot::all().collect(), ctx: dummy_ctx() }))
    }
    fn reads(&self) -> Vec<ResourceId> {
        self.0.reads()
    }
    fn writes(&self) -> Vec<ResourceId> {
        self.0.writes()
    }
}

pub struct HDataW<'a>(HData<'a>);

impl<'a> DynamicSystemData<'a> for HDataW<'a> {
    type Accessor = HAccW;
    fn setup(acc: &HAccW, world: &mut World) {
        HData::setup(&acc.0, world)
    }
    fn fetch(acc: &HAccW, world: &'a World) -> Self {
        HDataW(HData::fetch(&acc.0, world))
    }
}

pub struct HSysW {
    inner: HSys,
    accd: HAccW,
}

impl HSysW {
    pub fn new(sp: &SysSpec, ctx: &Arc<Ctx>) -> HSysW {
        HSysW {
            inner: HSys::new(sp, ctx),
            accd: HAccW(HAcc { uid: sp.uid, rslots: sp.reads.clone(), wslots: sp.writes.clone(), ctx: ctx.clone() }),
        }
    }
}

impl<'a> System<'a> for HSysW {
    type SystemData = HDataW<'a>;
    fn run(&mut self, data: HDataW<'a>) {
        self.inner.run(data.0)
    }
    fn running_time(&self) -> RunningTime {
        self.inner.running_time()
    }
    fn accessor<'b>(&'b self) -> AccessorCow<'a, 'b, Self> {
        AccessorCow::Ref(&self.accd)
    }
    fn setup(&mut self, world: &mut World) {
        System::setup(&mut self.inner, world)
    }
    fn dispose(self, world: &mut World) {
        System::dispose(self.inner, world)
    }
}

/// A system whose `accessor()` callback uses the library itself: the first few times it is asked
/// for its accessor (that is: while it is being registered) it fills another builder on the same
/// thread. Registration is re-entrant as far as user callbacks are concerned.
pub struct HSysR {
    inner: HSys,
    asked: std::sync::atomic::AtomicU8,
}

impl HSysR {
    pub fn new(sp: &SysSpec, ctx: &Arc<Ctx>) -> HSysR {
        HSysR { inner: HSys::new(sp, ctx), asked: std::sync::atomic::AtomicU8::new(0) }
    }
}

impl<'a> System<'a> for HSysR {
    type SystemData = HData<'a>;
    fn run(&mut self, data: HData<'a>) {
        self.inner.run(data)
    }
    fn running_time(&self) -> RunningTime {
        self.inner.running_time()
    }
    fn accessor<'b>(&'b self) -> AccessorCow<'a, 'b, Self> {
        if self.asked.load(Relaxed) < 3 {
            self.asked.fetch_add(1, Relaxed);
            let ghost = SysSpec { uid: 0, name: String::new(), deps: vec![], reads: self.inner.acc.rslots.clone(), writes: self.inner.acc.wslots.clone(), time: 3, kind: Kind::Dyn };
            let mut other = DispatcherBuilder::new();
            other.add(HSys::new(&ghost, &self.inner.acc.ctx), "registered from inside a callback", &[]);
            other.add_barrier();
            other.add(HSys::new(&ghost, &self.inner.acc.ctx), "", &["registered from inside a callback"]);
            drop(other);
        }
        AccessorCow::Ref(&self.inner.acc)
    }
    fn setup(&mut self, world: &mut World) {
        System::setup(&mut self.inner, world)
    }
    fn dispose(self, world: &mut World) {
        System::dispose(self.inner, world)
    }
}

// ------------------------------------------------------------------------------------------------
// Static systems: a menu of real library `SystemData` types
// ------------------------------------------------------------------------------------------------

/// Access to the members of a static data type, in declaration order.
pub trait SData<'a>: SystemData<'a> {
    fn reads_each(&self, f: &mut dyn FnMut(Slot, &dyn Pay));
    fn writes_each(&mut self, f: &mut dyn FnMut(Slot, &mut dyn Pay));
}

pub trait Menu: Send + Sync + 'static {
    type Data<'a>: SData<'a>;
    const ID: u8;
}

#[derive(shred::SystemData)]
pub struct D6<'a> {
    pub a: Read<'a, R2>,
    pub b: Write<'a, R6>,
}

#[derive(shred::SystemData)]
pub struct D11<'a>(pub Write<'a, R2>, pub Option<Read<'a, R3>>, pub PhantomData<&'a ()>);

/// A derived bundle whose name begins like a library type, nested in another derived bundle.
#[derive(shred::SystemData)]
pub struct ReadWriteCounters<'a> {
    pub w: Write<'a, R4>,
}
#[derive(shred::SystemData)]
pub struct D14<'a> {
    pub inner: ReadWriteCounters<'a>,
    pub r: Read<'a, R0>,
}

/// A generic derived bundle, used with two different type arguments (menu 15 and 16).
#[derive(shred::SystemData)]
pub struct GWatch<'a, T: shred::Resource> {
    pub v: Read<'a, T>,
    pub z: Option<Read<'a, R7>>,
}

pub const N_MENU: u8 = 17;

/// The harness's *own* table of what each menu entry reads / writes (not derived from the library).
pub fn menu_slots(id: u8) -> (Vec<Slot>, Vec<Slot>) {
    match id {
        0 => (vec![], vec![]),
        1 => (vec![s(0)], vec![]),
        2 => (vec![], vec![s(1)]),
        3 => (vec![s(0)], vec![s(2)]),
        4 => (vec![s(3)], vec![s(1)]),
        5 => (vec![s(4)], vec![s(5)]),
        6 => (vec![s(2)], vec![s(6)]),
        7 => (vec![s(0), s(1)], vec![s(7)]),
        8 => (vec![], vec![s(0)]),
        9 => (vec![], vec![s(3), s(4)]),
        10 => (vec![s(5), s(6), s(7)], vec![]),
        11 => (vec![s(3)], vec![s(2)]),
        12 => (vec![s(7)], vec![]),
        13 => (vec![s(1)], vec![s(5)]),
        14 => (vec![s(0)], vec![s(4)]),
        15 => (vec![s(2), s(7)], vec![]),
        16 => (vec![s(6), s(7)], vec![]),
        _ => panic!("menu id"),
    }
}

macro_rules! menu {
    ($m:ident, $id:expr, $ty:ty) => {
        pub struct $m;
        impl Menu for $m {
            type Data<'a> = $ty;
            const ID: u8 = $id;
        }
    };
}

// The `SData` impls are written per concrete type (a type alias with a lifetime cannot be used in
// the macro above for the impl header without repeating it), so they follow explicitly.

pub type T0<'a> = ();
pub type T1<'a> = Read<'a, R0>;
pub type T2<'a> = Write<'a, R1>;
pub type T3<'a> = (Read<'a, R0>, Write<'a, R2>);
pub type T4<'a> = (ReadExpect<'a, R3>, WriteExpect<'a, R1>);
pub type T5<'a> = (Option<Read<'a, R4>>, Option<Write<'a, R5>>);
pub type T6<'a> = D6<'a>;
pub type T7<'a> = ((Read<'a, R0>, Read<'a, R1>), Write<'a, R7>);
pub type T8<'a> = Write<'a, R0>;
pub type T9<'a> = (Write<'a, R3>, Write<'a, R4>);
pub type T10<'a> = (Read<'a, R5>, Read<'a, R6>, Read<'a, R7>);
pub type T11<'a> = D11<'a>;
pub type T12<'a> = Read<'a, R7>;
pub type T13<'a> = (Write<'a, R5>, Read<'a, R1>);
pub type T14<'a> = D14<'a>;
pub type T15<'a> = GWatch<'a, R2>;
pub type T16<'a> = GWatch<'a, R6>;

menu!(M0, 0, T0<'a>);
menu!(M1, 1, T1<'a>);
menu!(M2, 2, T2<'a>);
menu!(M3, 3, T3<'a>);
menu!(M4, 4, T4<'a>);
menu!(M5, 5, T5<'a>);
menu!(M6, 6, T6<'a>);
menu!(M7, 7, T7<'a>);
menu!(M8, 8, T8<'a>);
menu!(M9, 9, T9<'a>);
menu!(M10, 10, T10<'a>);
menu!(M11, 11, T11<'a>);
menu!(M12, 12, T12<'a>);
menu!(M13, 13, T13<'a>);
menu!(M14, 14, T14<'a>);
menu!(M15, 15, T15<'a>);
menu!(M16, 16, T16<'a>);

impl<'a> SData<'a> for T14<'a> {
    fn reads_each(&self, f: &mut dyn FnMut(Slot, &dyn Pay)) {
        f(s(0), &*self.r);
    }
    fn writes_each(&mut self, f: &mut dyn FnMut(Slot, &mut dyn Pay)) {
        f(s(4), &mut *self.inner.w);
    }
}
impl<'a> SData<'a> for T15<'a> {
    fn reads_each(&self, f: &mut dyn FnMut(Slot, &dyn Pay)) {
        f(s(2), &*self.v);
        if let Some(z) = &self.z {
            f(s(7), &**z);
        }
    }
    fn writes_each(&mut self, _f: &mut dyn FnMut(Slot, &mut dyn Pay)) {}
}
impl<'a> SData<'a> for T16<'a> {
    fn reads_each(&self, f: &mut dyn FnMut(Slot, &dyn Pay)) {
        f(s(6), &*self.v);
        if let Some(z) = &self.z {
            f(s(7), &**z);
        }
    }
    fn writes_each(&mut self, _f: &mut dyn FnMut(Slot, &mut dyn Pay)) {}
}

impl<'a> SData<'a> for T0<'a> {
    fn reads_each(&self, _f: &mut dyn FnMut(Slot, &dyn Pay)) {}
    fn writes_each(&mut self, _f: &mut dyn FnMut(Slot, &mut dyn Pay)) {}
}
impl<'a> SData<'a> for T1<'a> {
    fn reads_each(&self, f: &mut dyn FnMut(Slot, &dyn Pay)) {
        f(s(0), &**self);
    }
    fn writes_each(&mut self, _f: &mut dyn FnMut(Slot, &mut dyn Pay)) {}
}
impl<'a> SData<'a> for T2<'a> {
    fn reads_each(&self, _f: &mut dyn FnMut(Slot, &dyn Pay)) {}
    fn writes_each(&mut self, f: &mut dyn FnMut(Slot, &mut dyn Pay)) {
        f(s(1), &mut **self);
    }
}
impl<'a> SData<'a> for T3<'a> {
    fn reads_each(&self, f: &mut dyn FnMut(Slot, &dyn Pay)) {
        f(s(0), &*self.0);
    }
    fn writes_each(&mut self, f: &mut dyn FnMut(Slot, &mut dyn Pay)) {
        f(s(2), &mut *self.1);
    }
}
impl<'a> SData<'a> for T4<'a> {
    fn reads_each(&self, f: &mut dyn FnMut(Slot, &dyn Pay)) {
        f(s(3), &*self.0);
    }
    fn writes_each(&mut self, f: &mut dyn FnMut(Slot, &mut dyn Pay)) {
        f(s(1), &mut *self.1);
    }
}
impl<'a> SData<'a> for T5<'a> {
    fn reads_each(&self, f: &mut dyn FnMut(Slot, &dyn Pay)) {
        if let Some(r) = &self.0 {
            f(s(4), &**r);
        }
    }
    fn writes_each(&mut self, f: &mut dyn FnMut(Slot, &mut dyn Pay)) {
        if let Some(w) = &mut self.1 {
            f(s(5), &mut **w);
        }
    }
}
impl<'a> SData<'a> for T6<'a> {
    fn reads_each(&self, f: &mut dyn FnMut(Slot, &dyn Pay)) {
        f(s(2), &*self.a);
    }
    fn writes_each(&mut self, f: &mut dyn FnMut(Slot, &mut dyn Pay)) {
        f(s(6), &mut *self.b);
    }
}
impl<'a> SData<'a> for T7<'a> {
    fn reads_each(&self, f: &mut dyn FnMut(Slot, &dyn Pay)) {
        f(s(0), &*(self.0).0);
        f(s(1), &*(self.0).1);
    }
    fn writes_each(&mut self, f: &mut dyn FnMut(Slot, &mut dyn Pay)) {
        f(s(7), &mut *self.1);
    }
}
impl<'a> SData<'a> for T8<'a> {
    fn reads_each(&self, _f: &mut dyn FnMut(Slot, &dyn Pay)) {}
    fn writes_each(&mut self, f: &mut dyn FnMut(Slot, &mut dyn Pay)) {
        f(s(0), &mut **self);
    }
}
impl<'a> SData<'a> for T9<'a> {
    fn reads_each(&self, _f: &mut dyn FnMut(Slot, &dyn Pay)) {}
    fn writes_each(&mut self, f: &mut dyn FnMut(Slot, &mut dyn Pay)) {
        f(s(3), &mut *self.0);
        f(s(4), &mut *self.1);
    }
}
impl<'a> SData<'a> for T10<'a> {
    fn reads_each(&self, f: &mut dyn FnMut(Slot, &dyn Pay)) {
        f(s(5), &*self.0);
        f(s(6), &*self.1);
        f(s(7), &*self.2);
    }
    fn writes_each(&mut self, _f: &mut dyn FnMut(Slot, &mut dyn Pay)) {}
}
impl<'a> SData<'a> for T11<'a> {
    fn reads_each(&self, f: &mut dyn FnMut(Slot, &dyn Pay)) {
        if let Some(r) = &self.1 {
            f(s(3), &**r);
        }
    }
    fn writes_each(&mut self, f: &mut dyn FnMut(Slot, &mut dyn Pay)) {
        f(s(2), &mut *self.0);
    }
}
impl<'a> SData<'a> for T12<'a> {
    fn reads_each(&self, f: &mut dyn FnMut(Slot, &dyn Pay)) {
        f(s(7), &**self);
    }
    fn writes_each(&mut self, _f: &mut dyn FnMut(Slot, &mut dyn Pay)) {}
}
impl<'a> SData<'a> for T13<'a> {
    fn reads_each(&self, f: &mut dyn FnMut(Slot, &dyn Pay)) {
        f(s(1), &*self.1);
    }
    fn writes_each(&mut self, f: &mut dyn FnMut(Slot, &mut dyn Pay)) {
        f(s(5), &mut *self.0);
    }
}

#[macro_export]
macro_rules! with_menu {
    ($m:expr, $M:ident => $e:expr) => {
        match $m {
            0 => { type $M = $crate::sys::M0; $e }
            1 => { type $M = $crate::sys::M1; $e }
            2 => { type $M = $crate::sys::M2; $e }
            3 => { type $M = $crate::sys::M3; $e }
            4 => { type $M = $crate::sys::M4; $e }
            5 => { type $M = $crate::sys::M5; $e }
            6 => { type $M = $crate::sys::M6; $e }
            7 => { type $M = $crate::sys::M7; $e }
            8 => { type $M = $crate::sys::M8; $e }
            9 => { type $M = $crate::sys::M9; $e }
            10 => { type $M = $crate::sys::M10; $e }
            11 => { type $M = $crate::sys::M11; $e }
            12 => { type $M = $crate::sys::M12; $e }
            13 => { type $M = $crate::sys::M13; $e }
            14 => { type $M = $crate::sys::M14; $e }
            15 => { type $M = $crate::sys::M15; $e }
            16 => { type $M = $crate::sys::M16; $e }
            _ => unreachable!("menu index"),
        }
    };
}

/// What the library itself reports for a menu entry (used by cross-checks only).
pub fn menu_reported(id: u8) -> (Vec<ResourceId>, Vec<ResourceId>) {
    with_menu!(id, M => (<<M as Menu>::Data<'static> as SystemData>::reads(), <<M as Menu>::Data<'static> as SystemData>::writes()))
}

pub struct SSys<M: Menu> {
    uid: u32,
    time: u8,
    ctx: Arc<Ctx>,
    obs: u64,
    _m: PhantomData<M>,
}

impl<M: Menu> SSys<M> {
    pub fn new(sp: &SysSpec, ctx: &Arc<Ctx>) -> Self {
        SSys { uid: sp.uid, time: sp.time, ctx: ctx.clone(), obs: 0, _m: PhantomData }
    }
}

impl<'a, M: Menu> System<'a> for SSys<M> {
    type SystemData = M::Data<'a>;

    fn run(&mut self, mut data: M::Data<'a>) {
        let ctx = self.ctx.clone();
        let uid = self.uid;
        if ctx.mode() == Mode::Identify {
            ctx.ident_push(IdentEv::Sys(uid));
            return;
        }
        if ctx.mode() == Mode::Hb {
            let v = ctx.hb_enter(uid);
            ctx.hb_leave(uid, v);
            return;
        }
        ctx.ev(Ev::FetchDone, uid, 0);
        ctx.gate(uid, Gate::PostFetch);
        ctx.gate(uid, Gate::PreRun);
        ctx.ev(Ev::RunStart, uid, 0);
        ctx.active.fetch_add(1, SeqCst);
        ctx.runs[uid as usize].fetch_add(1, SeqCst);
        ctx.last_thread[uid as usize].store(tid() as u32, SeqCst);
        let mut b = Body::new(&ctx, uid, self.obs);
        data.reads_each(&mut |sl, p| b.read(sl, p));
        data.writes_each(&mut |sl, p| b.write(sl, p));
        self.obs = b.finish();
        maybe_panic(&ctx, uid, INJ_PANIC_RUN);
        ctx.ends[uid as usize].fetch_add(1, SeqCst);
        ctx.ev(Ev::RunEnd, uid, 0);
        ctx.gate(uid, Gate::PostRun);
        ctx.gate(uid, Gate::PreRelease);
        ctx.ev(Ev::Released, uid, 0);
        drop(data);
        ctx.finished.fetch_add(1, SeqCst);
        ctx.active.fetch_sub(1, SeqCst);
        ctx.gate(uid, Gate::PostRelease);
    }

    fn running_time(&self) -> RunningTime {
        running_time(self.time)
    }

    /// The library calls `accessor()` immediately before `fetch` inside `run_now`; while a
    /// dispatch is in flight this is where the window of a static system begins.
    fn accessor<'b>(&'b self) -> AccessorCow<'a, 'b, Self> {
        if self.ctx.mode() == Mode::Run {
            self.ctx.gate(self.uid, Gate::PreFetch);
            self.ctx.ev(Ev::FetchEnter, self.uid, 0);
        }
        AccessorCow::Owned(StaticAccessor::try_new().expect("static accessor"))
    }

    fn setup(&mut self, world: &mut World) {
        self.ctx.setups[self.uid as usize].fetch_add(1, SeqCst);
        self.ctx.ev(Ev::Setup, self.uid, 0);
        <M::Data<'a> as SystemData>::setup(world);
    }

    fn dispose(self, _world: &mut World) {
        self.ctx.disposes[self.uid as usize].fetch_add(1, SeqCst);
        self.ctx.ev(Ev::Dispose, self.uid, 0);
    }
}

// ------------------------------------------------------------------------------------------------
// Thread-local system (deliberately !Send)
// ------------------------------------------------------------------------------------------------

pub struct HTl {
    uid: u32,
    reads: Vec<Slot>,
    writes: Vec<Slot>,
    ctx: Arc<Ctx>,
    obs: u64,
    _not_send: Rc<()>,
}

impl HTl {
    pub fn new(t: &TlSpec, ctx: &Arc<Ctx>) -> HTl {
        HTl { uid: t.uid, reads: t.reads.clone(), writes: t.writes.clone(), ctx: ctx.clone(), obs: 0, _not_send: Rc::new(()) }
    }
}

impl<'a> RunNow<'a> for HTl {
    fn run_now(&mut self, world: &'a World) {
        let ctx = self.ctx.clone();
        let uid = self.uid;
        if ctx.mode() == Mode::Identify {
            ctx.ident_push(IdentEv::Tl(uid));
            return;
        }
        if ctx.mode() == Mode::Hb {
            let v = ctx.hb_enter(uid);
            ctx.hb_leave(uid, v);
            return;
        }
        ctx.gate(uid, Gate::PreFetch);
        ctx.ev(Ev::TlStart, uid, 0);
        ctx.ev(Ev::FetchEnter, uid, 0);
        ctx.runs[uid as usize].fetch_add(1, SeqCst);
        ctx.last_thread[uid as usize].store(tid() as u32, SeqCst);
        {
            let mut b = Body::new(&ctx, uid, self.obs);
            let rd: Vec<_> = self.reads.iter().filter_map(|s| fetch_r(world, *s).map(|g| (*s, g))).collect();
            let mut wr: Vec<_> = self.writes.iter().filter_map(|s| fetch_w(world, *s).map(|g| (*s, g))).collect();
            ctx.gate(uid, Gate::PreRun);
            for (sl, g) in rd.iter() {
                b.read(*sl, g.pay());
            }
            for (sl, g) in wr.iter_mut() {
                b.write(*sl, g.pay_mut());
            }
            self.obs = b.finish();
            maybe_panic(&ctx, uid, INJ_PANIC_RUN);
            ctx.gate(uid, Gate::PostRun);
        }
        ctx.ends[uid as usize].fetch_add(1, SeqCst);
        ctx.ev(Ev::Released, uid, 0);
        ctx.ev(Ev::TlEnd, uid, 0);
    }

    fn setup(&mut self, world: &mut World) {
        self.ctx.setups[self.uid as usize].fetch_add(1, SeqCst);
        self.ctx.ev(Ev::Setup, self.uid, 0);
        for s in self.reads.iter().chain(self.writes.iter()) {
            if !world.has_value_raw(s.rid()) {
                insert_default(world, *s);
            }
        }
        maybe_panic(&self.ctx, self.uid, INJ_PANIC_SETUP);
    }

    fn dispose(self: Box<Self>, _world: &mut World) {
        self.ctx.disposes[self.uid as usize].fetch_add(1, SeqCst);
        self.ctx.ev(Ev::Dispose, self.uid, 0);
    }
}

// ------------------------------------------------------------------------------------------------
// Batch controllers
// ------------------------------------------------------------------------------------------------

pub struct HCtl<M: Menu> {
    uid: u32,
    k: u32,
    time: u8,
    ctx: Arc<Ctx>,
    obs: u64,
    /// (uid, runs per inner dispatch) of everything inside the batch
    inner_expect: Vec<(u32, u32)>,
    _m: PhantomData<M>,
}

impl<M: Menu> HCtl<M> {
    pub fn new(b: &BatchSpec, ctx: &Arc<Ctx>) -> Self {
        let per = crate::exec::expected_counts(&b.inner, crate::exec::DMode::Dispatch, ctx.n);
        let inner_expect = per.iter().enumerate().filter(|(_, c)| **c > 0).map(|(u, c)| (u as u32, *c)).collect();
        HCtl { uid: b.uid, k: b.k, time: b.time, ctx: ctx.clone(), obs: 0, inner_expect, _m: PhantomData }
    }

    /// One inner dispatch the way this controller does it.
    fn inner_dispatch<'a, 'b>(&self, world: &World, dispatcher: &mut Dispatcher<'a, 'b>) {
        if self.ctx.inner_seq.load(SeqCst) {
            dispatcher.dispatch_seq(world);
            dispatcher.dispatch_thread_local(world);
        } else if self.uid % 3 == 0 {
            // the trait entry point (documented as: same as `dispatch`), called on whatever
            // thread runs this controller - usually a pool worker
            RunNow::run_now(dispatcher, world);
        } else {
            dispatcher.dispatch(world);
        }
    }
}

impl<'a, 'b, 'c, M: Menu> BatchController<'a, 'b, 'c> for HCtl<M> {
    type BatchSystemData = M::Data<'c>;

    fn run(&mut self, world: &'c World, dispatcher: &mut Dispatcher<'a, 'b>) {
        let ctx = self.ctx.clone();
        let uid = self.uid;
        if ctx.mode() == Mode::Identify {
            let (shape, ntl) = dispatcher.verif_shape();
            #[cfg(feature = "parallel")]
            let mt = dispatcher.max_threads();
            #[cfg(not(feature = "parallel"))]
            let mt = usize::MAX;
            ctx.ident_push(IdentEv::BatchBegin(uid, shape, ntl, mt));
            dispatcher.dispatch_seq(world);
            dispatcher.dispatch_thread_local(world);
            ctx.ident_push(IdentEv::BatchEnd(uid));
            return;
        }
        if ctx.mode() == Mode::Hb {
            let v = ctx.hb_enter(uid);
            for _ in 0..self.k {
                dispatcher.dispatch(world);
            }
            ctx.hb_leave(uid, v);
            return;
        }
        ctx.gate(uid, Gate::PreFetch);
        ctx.ev(Ev::FetchEnter, uid, 0);
        ctx.runs[uid as usize].fetch_add(1, SeqCst);
        ctx.last_thread[uid as usize].store(tid() as u32, SeqCst);
        {
            ctx.ev(Ev::CtlDataEnter, uid, 0);
            let mut data: M::Data<'c> = world.system_data();
            ctx.ev(Ev::FetchDone, uid, 0);
            ctx.gate(uid, Gate::PostFetch);
            ctx.gate(uid, Gate::PreRun);
            ctx.ev(Ev::RunStart, uid, 0);
            let mut b = Body::new(&ctx, uid, self.obs);
            data.reads_each(&mut |sl, p| b.read(sl, p));
            data.writes_each(&mut |sl, p| b.write(sl, p));
            self.obs = b.finish();
            ctx.ev(Ev::CtlDataRel, uid, 0);
            drop(data);
        }
        for i in 0..self.k {
            ctx.ev(Ev::InnerBegin, uid, i as u16);
            if ctx.ctl_catches.load(SeqCst) {
                // a controller that survives a failing inner system: catch, then dispatch the
                // inner dispatcher again in the same frame - that dispatch must be a perfectly
                // normal one (every inner system exactly once)
                let r = std::panic::catch_unwind(std::panic::AssertUnwindSafe(|| self.inner_dispatch(world, dispatcher)));
                if r.is_err() {
                    ctx.ctl_caught.fetch_add(1, SeqCst);
                    let before: Vec<u32> = self.inner_expect.iter().map(|(u, _)| ctx.runs[*u as usize].load(SeqCst)).collect();
                    self.inner_dispatch(world, dispatcher);
                    for ((u, want), b) in self.inner_expect.iter().zip(before) {
                        let got = ctx.runs[*u as usize].load(SeqCst) - b;
                        if got != *want {
                            ctx.violation(format!(
                                "c14: batch u{} caught the panic of an inner system and dispatched its inner dispatcher again: in that dispatch u{} ran {} times, expected {}",
                                uid, u, got, want
                            ));
                            break;
                        }
                    }
                }
            } else {
                self.inner_dispatch(world, dispatcher);
            }
            ctx.ev(Ev::InnerEnd, uid, i as u16);
        }
        maybe_panic(&ctx, uid, INJ_PANIC_RUN);
        ctx.ends[uid as usize].fetch_add(1, SeqCst);
        ctx.ev(Ev::RunEnd, uid, 0);
        ctx.gate(uid, Gate::PostRun);
        ctx.gate(uid, Gate::PreRelease);
        ctx.ev(Ev::Released, uid, 0);
        ctx.gate(uid, Gate::PostRelease);
    }

    fn running_time(&self) -> RunningTime {
        running_time(self.time)
    }
}

/// Controller for `MultiDispatcher`: `plan()` returns k.
pub struct HMulti<M: Menu> {
    uid: u32,
    k: u32,
    ctx: Arc<Ctx>,
    obs: u64,
    _m: PhantomData<M>,
}

impl<M: Menu> HMulti<M> {
    pub fn new(b: &BatchSpec, ctx: &Arc<Ctx>) -> Self {
        HMulti { uid: b.uid, k: b.k, ctx: ctx.clone(), obs: 0, _m: PhantomData }
    }
}

impl<'a, M: Menu> MultiDispatchController<'a> for HMulti<M> {
    type SystemData = M::Data<'a>;

    fn plan(&mut self, mut data: M::Data<'a>) -> usize {
        let ctx = self.ctx.clone();
        let uid = self.uid;
        if ctx.mode() == Mode::Identify {
            ctx.ident_push(IdentEv::BatchBegin(uid, vec![], usize::MAX, usize::MAX));
            ctx.ident_push(IdentEv::BatchEnd(uid));
            return 0;
        }
        if ctx.mode() == Mode::Hb {
            let v = ctx.hb_enter(uid);
            ctx.hb_leave(uid, v);
            return self.k as usize;
        }
        // the library has fetched `data` already: the window starts here, inside run_now
        ctx.ev(Ev::FetchEnter, uid, 1);
        ctx.ev(Ev::FetchDone, uid, 0);
        ctx.gate(uid, Gate::PreRun);
        ctx.ev(Ev::RunStart, uid, 0);
        ctx.runs[uid as usize].fetch_add(1, SeqCst);
        ctx.last_thread[uid as usize].store(tid() as u32, SeqCst);
        let mut b = Body::new(&ctx, uid, self.obs);
        data.reads_each(&mut |sl, p| b.read(sl, p));
        data.writes_each(&mut |sl, p| b.write(sl, p));
        self.obs = b.finish();
        ctx.ev(Ev::CtlDataRel, uid, 0);
        drop(data);
        ctx.ends[uid as usize].fetch_add(1, SeqCst);
        self.k as usize
    }
}

// ------------------------------------------------------------------------------------------------
// Plan -> real builder
// ------------------------------------------------------------------------------------------------

#[cfg(feature = "parallel")]
pub type Pool = Arc<rayon::ThreadPool>;
#[cfg(not(feature = "parallel"))]
pub type Pool = Arc<()>;

static POOL_PANICS: std::sync::Mutex<Vec<String>> = std::sync::Mutex::new(Vec::new());

/// Payloads of panics that reached a pool's panic handler (rayon `spawn` would abort otherwise).
pub fn take_pool_panics() -> Vec<String> {
    std::mem::take(&mut *POOL_PANICS.lock().unwrap_or_else(|e| e.into_inner()))
}

#[cfg(feature = "parallel")]
pub fn make_pool(n: usize) -> Pool {
    Arc::new(
        rayon::ThreadPoolBuilder::new()
            .num_threads(n)
            .panic_handler(|p| {
                let msg = payload_str(&*p);
                POOL_PANICS.lock().unwrap_or_else(|e| e.into_inner()).push(msg);
            })
            .build()
            .expect("pool"),
    )
}
#[cfg(not(feature = "parallel"))]
pub fn make_pool(_n: usize) -> Pool {
    Arc::new(())
}

/// Registers the whole plan, in order, on a fresh builder. Panics of the builder propagate.
pub fn instantiate(plan: &Plan, ctx: &Arc<Ctx>, pool: Option<&Pool>) -> DispatcherBuilder<'static, 'static> {
    let mut b = DispatcherBuilder::new();
    #[cfg(feature = "parallel")]
    if let Some(p) = pool {
        b.add_pool(p.clone());
    }
    for (idx, it) in plan.items.iter().enumerate() {
        if let Item::Failed(k) = it {
            failed_attempt(&mut b, &plan.items, idx, *k, ctx);
            continue;
        }
        register(&mut b, it, ctx, pool);
    }
    b
}

/// A system whose own code panics while the builder inspects it (mode 2: `Accessor::reads`,
/// 3: `Accessor::writes`, 4: `running_time`, 5: `accessor`). Up to that point it reports a real
/// access set, so that whatever a builder keeps of a failed registration is visible afterwards.
pub struct BadAcc {
    pub reads: Vec<ResourceId>,
    pub writes: Vec<ResourceId>,
    pub mode: u8,
}

impl Accessor for BadAcc {
    fn try_new() -> Option<Self> {
        None
    }
    fn reads(&self) -> Vec<ResourceId> {
        if self.mode == 2 {
            std::panic::panic_any("INJECTED-PANIC in Accessor::reads of a system being registered".to_string());
        }
        self.reads.clone()
    }
    fn writes(&self) -> Vec<ResourceId> {
        if self.mode == 3 {
            std::panic::panic_any("INJECTED-PANIC in Accessor::writes of a system being registered".to_string());
        }
        self.writes.clone()
    }
}

pub struct BadData;

impl<'a> DynamicSystemData<'a> for BadData {
    type Accessor = BadAcc;
    fn setup(_: &BadAcc, _: &mut World) {}
    fn fetch(_: &BadAcc, _: &'a World) -> Self {
        BadData
    }
}

pub struct BadSys {
    pub acc: BadAcc,
}

impl<'a> System<'a> for BadSys {
    type SystemData = BadData;
    fn run(&mut self, _: BadData) {}
    fn running_time(&self) -> RunningTime {
        if self.acc.mode == 4 {
            std::panic::panic_any("INJECTED-PANIC in running_time of a system being registered".to_string());
        }
        RunningTime::Average
    }
    fn accessor<'b>(&'b self) -> AccessorCow<'a, 'b, Self> {
        if self.acc.mode == 5 {
            std::panic::panic_any("INJECTED-PANIC in accessor() of a system being registered".to_string());
        }
        AccessorCow::Ref(&self.acc)
    }
}

fn item_access(it: &Item) -> Option<Access> {
    match it {
        Item::Sys(s) => Some(Access::of(&s.reads, &s.writes)),
        Item::Batch(b) => Some(b.access()),
        _ => None,
    }
}

/// A registration attempt that panics (ill-formed call, or the system's own code fails while
/// the builder inspects it), caught; the builder is used further. `items[idx]` is the attempt.
/// Returns true if the call panicked.
pub fn failed_attempt(b: &mut DispatcherBuilder<'static, 'static>, items: &[Item], idx: usize, kind: u8, ctx: &Arc<Ctx>) -> bool {
    let earlier = &items[..idx.min(items.len())];
    let ghost = SysSpec { uid: 0, name: String::new(), deps: vec![], reads: vec![], writes: vec![], time: 3, kind: Kind::Dyn };
    // (neighbours are looked for nearby only: plans may hold very long runs of barriers)
    let dup: Option<String> = earlier.iter().rev().take(64).find_map(|x| match x {
        Item::Sys(s) if !s.name.is_empty() => Some(s.name.clone()),
        Item::Batch(bb) if !bb.name.is_empty() => Some(bb.name.clone()),
        _ => None,
    });
    let mode = kind & 15;
    if mode >= 2 {
        // declares, as writes, everything the next registration touches and, as reads, what the
        // previous one touched: leftovers of the failed call would hit its neighbours
        let next = items.iter().skip(idx + 1).take(16).find_map(item_access).unwrap_or_default();
        let prev = earlier.iter().rev().take(16).find_map(item_access).unwrap_or_default();
        let writes: Vec<ResourceId> = next.writes.iter().chain(next.reads.iter()).map(|s| s.rid()).collect();
        let reads: Vec<ResourceId> = prev.writes.iter().chain(prev.reads.iter()).map(|s| s.rid()).filter(|r| !writes.contains(r)).collect();
        let name = if kind & FAILED_NAMED != 0 { format!("ghost of attempt {}", idx) } else { String::new() };
        let sys = BadSys { acc: BadAcc { reads, writes, mode } };
        return std::panic::catch_unwind(std::panic::AssertUnwindSafe(|| b.add(sys, &name, &[]))).is_err();
    }
    std::panic::catch_unwind(std::panic::AssertUnwindSafe(|| match (mode, dup) {
        (1, Some(name)) => b.add(HSys::new(&ghost, ctx), &name, &[]),
        _ => b.add(HSys::new(&ghost, ctx), "never registered", &["no such dependency"]),
    }))
    .is_err()
}

/// Registers one item (used directly by C18/C20 which watch every single call).
pub fn register(b: &mut DispatcherBuilder<'static, 'static>, it: &Item, ctx: &Arc<Ctx>, pool: Option<&Pool>) {
    match it {
        Item::Barrier => b.add_barrier(),
        Item::Failed(_) => {} // needs the registration history: handled by `instantiate`
        Item::Tl(t) => b.add_thread_local(HTl::new(t, ctx)),
        Item::Sys(sp) => {
            let deps: Vec<&str> = sp.deps.iter().map(|d| d.as_str()).collect();
            match sp.kind {
                // flavours of a dynamic system: the accessor type has no default / an empty default /
                // a wide default (`accessor()` of the instance is what counts), and one whose
                // `accessor()` callback registers into another builder while it is being registered
                Kind::Dyn => match sp.uid % 7 {
                    3 => b.add(HSysD::new(sp, ctx), &sp.name, &deps),
                    5 => b.add(HSysW::new(sp, ctx), &sp.name, &deps),
                    1 => b.add(HSysR::new(sp, ctx), &sp.name, &deps),
                    _ => b.add(HSys::new(sp, ctx), &sp.name, &deps),
                },
                Kind::Static(m) => {
                    with_menu!(m, M => b.add(SSys::<M>::new(sp, ctx), &sp.name, &deps))
                }
            }
        }
        Item::Batch(bs) => {
            let inner = instantiate(&bs.inner, ctx, pool);
            let deps: Vec<&str> = bs.deps.iter().map(|d| d.as_str()).collect();
            add_batch_item(b, bs, inner, ctx, &deps);
        }
    }
}

/// Adds a batch whose inner builder has been prepared by the caller.
pub fn add_batch_item(
    b: &mut DispatcherBuilder<'static, 'static>,
    bs: &BatchSpec,
    inner: DispatcherBuilder<'static, 'static>,
    ctx: &Arc<Ctx>,
    deps: &[&str],
) {
    if bs.multi {
        with_menu!(bs.ctl_menu, M => b.add_batch(MultiDispatcher::new(HMulti::<M>::new(bs, ctx)), inner, &bs.name, deps))
    } else {
        with_menu!(bs.ctl_menu, M => b.add_batch(HCtl::<M>::new(bs, ctx), inner, &bs.name, deps))
    }
}
