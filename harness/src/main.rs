use sv::report::Args;

fn main() {
    let argv: Vec<String> = std::env::args().collect();
    if argv.len() < 2 {
        eprintln!("usage: sv <property|tool> [--seed N] [--shard I] [--nshards N] [--thorough] [--out file] [--case N]");
        std::process::exit(64);
    }
    sv::ctx::install_quiet_hook();
    let args = Args::parse(&argv);
    let code = sv::props::run(&args);
    std::process::exit(code);
}
