//! C11 – side-by-side systems really run in parallel: bounded rendezvous of the heads of all groups
//! of a stage, with a differential control (a plain rayon rendezvous on an equivalent pool).

use std::sync::atomic::{AtomicUsize, Ordering::SeqCst};
use std::sync::Arc;
use std::time::{Duration, Instant};

use crate::ctx::*;
use crate::exec::*;
use crate::json::J;
use crate::layout::Layout;
use crate::plan::*;
use crate::props::sched::overlap_points;
use crate::report::*;
use crate::res::*;
use crate::rng::{mix, Rng};
use crate::sys::{instantiate, make_pool, Pool};

/// Bound of one rendezvous (a completed one takes well under a millisecond here). A failed
/// rendezvous is only a violation if (a) it fails again when the same dispatch is repeated and
/// (b) the plain-rayon control on the same pool then succeeds.
const WAIT: Duration = Duration::from_secs(4);

#[derive(Clone, Copy, Debug, PartialEq, Eq)]
enum Ctxt {
    UserPool,
    DefaultPool,
    BatchInner,
    Async,
    /// default pool; the wide stage contains a batch whose own inner stages are narrow
    DefaultPoolNarrowBatch,
}

/// w pairwise compatible systems (distinct write slots, shared read slot), optionally preceded by
/// a conflicting system so that the wide stage is not the first one.
fn wide_level(uid: &mut u32, w: usize, rng: &mut Rng, prefix: bool, base_ty: usize) -> Vec<Item> {
    // sometimes one of the w groups is a chain of two systems (a very short writer followed, in the
    // same group, by a short reader of the same resource): the stage still has w groups
    if !prefix && w >= 2 && rng.chance(1, 4) {
        let chain_slot = Slot::new(6, 2);
        let mut items = Vec::new();
        let hu = *uid;
        *uid += 1;
        items.push(Item::Sys(SysSpec { uid: hu, name: format!("s{}", hu), deps: vec![], reads: vec![], writes: vec![chain_slot], time: 1, kind: Kind::Dyn }));
        for i in 0..w - 1 {
            let u = *uid;
            *uid += 1;
            let sl = Slot::new(base_ty + i / NDYN, i % NDYN);
            items.push(Item::Sys(SysSpec { uid: u, name: format!("s{}", u), deps: vec![], reads: vec![], writes: vec![sl], time: 3, kind: Kind::Dyn }));
        }
        let tu = *uid;
        *uid += 1;
        items.push(Item::Sys(SysSpec { uid: tu, name: format!("s{}", tu), deps: vec![], reads: vec![chain_slot], writes: vec![], time: 2, kind: Kind::Dyn }));
        return items;
    }
    let mut items = Vec::new();
    let next = |uid: &mut u32| {
        let u = *uid;
        *uid += 1;
        u
    };
    let shared = Slot::new(7, 3);
    if prefix {
        let u = next(uid);
        items.push(Item::Sys(SysSpec { uid: u, name: format!("s{}", u), deps: vec![], reads: vec![], writes: vec![shared], time: 3, kind: Kind::Dyn }));
    }
    for i in 0..w {
        let u = next(uid);
        // distinct slots: (type, dyn) pairs from a block that the other level does not use
        let sl = Slot::new(base_ty + i / NDYN, i % NDYN);
        let time = *rng.pick(&[1u8, 2, 3, 4, 5]);
        items.push(Item::Sys(SysSpec { uid: u, name: format!("s{}", u), deps: vec![], reads: vec![shared], writes: vec![sl], time, kind: Kind::Dyn }));
    }
    items
}

/// plain rayon rendezvous of w closures on `pool`: the premise "the pool can run w things at once"
fn control(pool: &rayon::ThreadPool, w: usize) -> bool {
    let arrived = AtomicUsize::new(0);
    let ok = AtomicUsize::new(0);
    pool.scope(|s| {
        for _ in 0..w {
            s.spawn(|_| {
                arrived.fetch_add(1, SeqCst);
                if wait_until(Instant::now() + WAIT, || arrived.load(SeqCst) >= w) {
                    ok.fetch_add(1, SeqCst);
                }
            });
        }
    });
    ok.load(SeqCst) == w
}

/// A plain system that drives a whole other dispatcher (sendable form, own pool, own world).
struct DrivesAnother {
    inner: shred::SendDispatcher<'static>,
    world: Arc<shred::World>,
    par_only: bool,
}
impl<'a> shred::System<'a> for DrivesAnother {
    type SystemData = ();
    fn run(&mut self, _: ()) {
        if self.par_only {
            self.inner.dispatch_par(&self.world)
        } else {
            self.inner.dispatch(&self.world)
        }
    }
}

/// Keeps every system it sees inside `run` until released (bounded).
struct ParkAll {
    release: std::sync::atomic::AtomicBool,
    inside: AtomicUsize,
}
impl Driver for ParkAll {
    fn gate(&self, _: &Ctx, _: u32, g: Gate) {
        if g == Gate::PostRun {
            self.inside.fetch_add(1, SeqCst);
            wait_until(Instant::now() + Duration::from_secs(60), || self.release.load(SeqCst));
            self.inside.fetch_sub(1, SeqCst);
        }
    }
    fn name(&self) -> String {
        "park-all".into()
    }
}

/// Size of the pool a dispatcher builds for itself when none was supplied.
fn default_threads() -> usize {
    std::env::var("RAYON_NUM_THREADS").ok().and_then(|v| v.parse::<usize>().ok()).filter(|n| *n > 0).unwrap_or_else(|| std::thread::available_parallelism().map(|n| n.get()).unwrap_or(1))
}

/// The same registrations with the pool attached *after* them (batches included): the inner
/// dispatchers of batches registered earlier use that pool all the same.
fn instantiate_pool_last(plan: &Plan, ctx: &Arc<Ctx>, pool: Option<&Pool>) -> shred::DispatcherBuilder<'static, 'static> {
    let mut b = shred::DispatcherBuilder::new();
    for it in &plan.items {
        crate::sys::register(&mut b, it, ctx, None);
    }
    if let Some(p) = pool {
        b.add_pool(p.clone());
    }
    b
}

fn find_wide(l: &Layout, w: usize) -> bool {
    l.stages.iter().any(|s| s.len() >= w) || l.batches.values().flatten().any(|i| find_wide(i, w))
}

/// Everything one scenario needs, owned (it runs on its own thread so that a dispatch that never
/// returns can be detected instead of hanging the shard).
#[derive(Clone)]
struct Scenario {
    plan: Plan,
    ev: usize,
    reps: usize,
    pts: Vec<Vec<u32>>,
    ctxt: Ctxt,
    pool: Option<Pool>,
    warmup: usize,
    back_to_back: bool,
    par_only: bool,
    foreign: Option<Pool>,
    /// the user-supplied pool is attached after all registrations
    pool_last: bool,
    /// the dispatcher is dispatched from inside an ordinary system of *another* dispatcher, which
    /// runs on its own pool of this (small) size
    nested_in_system_of: Option<Pool>,
    /// while the scenario runs, another dispatcher (other pool, other thread) is busy: this many
    /// of its systems are inside run all the time
    busy_neighbour: usize,
}

/// One complete scenario on a fresh dispatcher: warm-up history, then `reps` dispatches whose
/// group heads rendezvous. Returns (rendezvous completed, participants that gave up).
fn run_scenario(p: &Scenario) -> (usize, usize) {
    let (plan, ev, reps, pts, ctxt, warmup, back_to_back, par_only) = (&p.plan, p.ev, p.reps, &p.pts, p.ctxt, p.warmup, p.back_to_back, p.par_only);
    let use_pool = p.pool.as_ref();
    let foreign = &p.foreign;

        let ctx = Ctx::new(plan.n_uids(), (ev + 16) * 2);
        let mut completed = 0usize;
        let mut gave_up = 0usize;
        // a busy neighbour: another dispatcher, on another pool and another thread, whose systems
        // stay inside run for the whole scenario
        let park = Arc::new(ParkAll { release: std::sync::atomic::AtomicBool::new(false), inside: AtomicUsize::new(0) });
        let neighbour = if p.busy_neighbour > 0 {
            let n = p.busy_neighbour;
            let park2 = park.clone();
            let h = std::thread::spawn(move || {
                let mut uid = 1u32;
                let mut rng = Rng::new(0x5eed ^ n as u64);
                let nplan = Plan { items: wide_level(&mut uid, n, &mut rng, false, 0) };
                let nctx = Ctx::new(nplan.n_uids(), 64);
                let npool = make_pool(n);
                let mut nd = instantiate(&nplan, &nctx, Some(&npool)).build();
                let nworld = full_world();
                nctx.arm(park2);
                nctx.set_mode(Mode::Run);
                nd.dispatch(&nworld);
                nctx.set_mode(Mode::Build);
            });
            if !wait_until(Instant::now() + Duration::from_secs(20), || park.inside.load(SeqCst) >= n) {
                park.release.store(true, SeqCst);
                let _ = h.join();
                return (0, 0);
            }
            Some(h)
        } else {
            None
        };
        struct ReleaseOnDrop(Arc<ParkAll>, Option<std::thread::JoinHandle<()>>);
        impl Drop for ReleaseOnDrop {
            fn drop(&mut self) {
                self.0.release.store(true, SeqCst);
                if let Some(h) = self.1.take() {
                    let _ = h.join();
                }
            }
        }
        let _release = ReleaseOnDrop(park.clone(), neighbour);
        let run_reps = |d: &mut dyn FnMut(), ctx: &Arc<Ctx>, completed: &mut usize, gave_up: &mut usize| {
            for _ in 0..reps {
                let o = Arc::new(Overlap::new(pts.clone(), WAIT));
                ctx.log.reset();
                ctx.arm(o.clone());
                ctx.set_mode(Mode::Run);
                d();
                ctx.set_mode(Mode::Build);
                ctx.disarm();
                *completed += o.completed.load(SeqCst);
                *gave_up += o.gave_up.load(SeqCst);
                if *gave_up > 0 {
                    break;
                }
            }
        };
        match ctxt {
            Ctxt::Async => {
                let b = if p.pool_last { instantiate_pool_last(plan, &ctx, use_pool) } else { instantiate(&plan, &ctx, use_pool) };
                let mut ad = b.build_async(full_world());
                ctx.set_mode(Mode::Quiet);
                for _ in 0..warmup {
                    ad.dispatch();
                    ad.wait();
                }
                ctx.set_mode(Mode::Build);
                run_reps(
                    &mut || {
                        ad.dispatch();
                        if back_to_back {
                            // a second request while the first may still be in flight
                            ad.dispatch();
                        }
                        ad.wait();
                    },
                    &ctx,
                    &mut completed,
                    &mut gave_up,
                );
            }
            _ => {
                let mut d = if p.pool_last { instantiate_pool_last(plan, &ctx, use_pool) } else { instantiate(&plan, &ctx, use_pool) }.build();
                let world = full_world();
                ctx.set_mode(Mode::Quiet);
                for _ in 0..warmup {
                    d.dispatch(&world);
                }
                ctx.set_mode(Mode::Build);
                if let Some(small) = &p.nested_in_system_of {
                    // the dispatcher under test is driven by a plain system of another dispatcher
                    let sd = match d.try_into_sendable() {
                        Ok(sd) => sd,
                        Err(_) => return (0, 0),
                    };
                    let mut ob = shred::DispatcherBuilder::new();
                    ob.add_pool(small.clone());
                    ob.add(DrivesAnother { inner: sd, world: Arc::new(world), par_only }, "drives another dispatcher", &[]);
                    let mut outer = ob.build();
                    let outer_world = full_world();
                    run_reps(&mut || outer.dispatch(&outer_world), &ctx, &mut completed, &mut gave_up);
                    return (completed, gave_up);
                }
                if let Some(f) = &foreign {
                    // the caller is itself a worker of some *other*, narrow pool: the dispatcher's
                    // own pool still has its idle threads (sendable form: these plans have no
                    // thread-local systems)
                    let mut sd = match d.try_into_sendable() {
                        Ok(sd) => sd,
                        Err(_) => return (0, 0),
                    };
                    run_reps(
                        &mut || f.install(|| if par_only { sd.dispatch_par(&world) } else { sd.dispatch(&world) }),
                        &ctx,
                        &mut completed,
                        &mut gave_up,
                    );
                    return (completed, gave_up);
                }
                run_reps(
                    &mut || {
                        if par_only {
                            d.dispatch_par(&world)
                        } else {
                            d.dispatch(&world)
                        }
                    },
                    &ctx,
                    &mut completed,
                    &mut gave_up,
                );
            }
        }
        (completed, gave_up)
}

/// Runs the scenario on a helper thread; None = it did not return within the (very generous) bound.
fn run_scenario_bounded(p: &Scenario) -> Option<(usize, usize)> {
    let (tx, rx) = std::sync::mpsc::channel();
    let q = p.clone();
    std::thread::spawn(move || {
        let r = run_scenario(&q);
        let _ = tx.send(r);
    });
    rx.recv_timeout(Duration::from_secs(90)).ok()
}

fn case(rng: &mut Rng, rep: &mut Report, case_no: u64, reps: usize) {
    let w = rng.range(2, 16);
    let ctxt = *rng.pick(&[Ctxt::UserPool, Ctxt::UserPool, Ctxt::DefaultPool, Ctxt::BatchInner, Ctxt::Async, Ctxt::DefaultPoolNarrowBatch]);
    let w = if ctxt == Ctxt::DefaultPoolNarrowBatch { w.min(12) } else { w };
    let extra = if ctxt == Ctxt::BatchInner { 1 } else { 0 };
    // the pool a dispatcher makes for itself has as many threads as RAYON_NUM_THREADS / the
    // machine says: the default-pool contexts promise nothing beyond that
    let dt = default_threads();
    let w = if matches!(ctxt, Ctxt::DefaultPool | Ctxt::DefaultPoolNarrowBatch) { w.min(dt) } else { w };
    if w < 2 {
        return;
    }
    // user pool attached after the batch was registered, and wider than a default pool would be
    let pool_last = matches!(ctxt, Ctxt::BatchInner | Ctxt::UserPool | Ctxt::Async) && rng.chance(1, 3);
    let w = if pool_last && ctxt == Ctxt::BatchInner { (dt + rng.range(1, 4)).min(24) } else { w };
    if pool_last {
        rep.metric("pool_attached_after_the_registrations", 1);
    }
    let pool_size = if rng.chance(1, 2) { w + extra } else { 16usize.max(w + extra) };
    let mut uid = 1u32;
    let prefix = rng.chance(1, 2);
    let plan = match ctxt {
        Ctxt::BatchInner => {
            // outer: one free sibling beside the batch; inner: the wide stage
            let bu = uid;
            uid += 1;
            let inner = Plan { items: wide_level(&mut uid, w, rng, prefix, 0) };
            let su = uid;
            uid += 1;
            Plan {
                items: vec![
                    Item::Batch(BatchSpec { uid: bu, name: "batch".into(), deps: vec![], ctl_menu: 0, k: 1, multi: rng.chance(1, 3), time: 3, inner }),
                    Item::Sys(SysSpec { uid: su, name: "sibling".into(), deps: vec![], reads: vec![], writes: vec![Slot::new(6, 3)], time: 3, kind: Kind::Dyn }),
                ],
            }
        }
        Ctxt::DefaultPoolNarrowBatch => {
            // w-1 compatible systems and one batch (inner: one or two systems) side by side
            let mut items = wide_level(&mut uid, w - 1, rng, false, 0);
            let bu = uid;
            uid += 1;
            let narrow = rng.range(1, 2);
            let inner = Plan { items: wide_level(&mut uid, narrow, rng, false, 5) };
            let at = rng.below(items.len() + 1);
            items.insert(at, Item::Batch(BatchSpec { uid: bu, name: "narrow batch".into(), deps: vec![], ctl_menu: 0, k: 1, multi: rng.chance(1, 3), time: 3, inner }));
            Plan { items }
        }
        _ => Plan { items: wide_level(&mut uid, w, rng, prefix, 0) },
    };
    rep.evaluations += 1;
    rep.metric(&format!("context_{:?}", ctxt), 1);
    rep.metric(&format!("width_{}", w), 1);
    let pool: Pool = make_pool(pool_size);
    let default_pool = matches!(ctxt, Ctxt::DefaultPool | Ctxt::DefaultPoolNarrowBatch);
    let use_pool = if default_pool { None } else { Some(&pool) };
    // twin for the layout
    let twin = match build(&plan, Some(&pool), pool_size, 16) {
        Ok(t) => t,
        Err(e) => {
            rep.inconclusive += 1;
            rep.notes.push(format!("case {}: {}", case_no, e));
            return;
        }
    };
    // a MultiDispatcher batch does not expose its inner dispatcher: use the layout of a standalone
    // build of the same inner registration sequence (determinism of the plan is C19's subject)
    let mut inner_twin: Option<Layout> = None;
    for b in plan.batches() {
        if let Some(None) = twin.layout.batches.get(&b.uid) {
            if let Ok(t) = build(&b.inner, Some(&pool), pool_size, 16) {
                inner_twin = Some(t.layout);
            }
        }
    }
    if !find_wide(&twin.layout, w) && !inner_twin.as_ref().map_or(false, |l| find_wide(l, w)) {
        // not placed side by side: that is C10's business, nothing to rendezvous here
        rep.metric("other_property_findings", 1);
        rep.notes.push(format!("case {}: {} compatible systems were not placed in one stage: {}", case_no, w, twin.layout.brief()));
        return;
    }
    let mut pts = Vec::new();
    overlap_points(&twin.layout, &mut pts);
    if let Some(l) = &inner_twin {
        overlap_points(l, &mut pts);
    }
    let pts: Vec<Vec<u32>> = pts.into_iter().filter(|p| p.len() >= w).collect();
    let (ev, _) = plan_runs(&plan);
    let t0 = Instant::now();
    // the stage's recent history must not matter: some cases first run a burst of dispatches in
    // which every system returns at once
    let warmup = if w <= 6 && rng.chance(1, 2) { rng.range(200, 3000) } else { 0 };
    let back_to_back = rng.chance(1, 2);
    let par_only = rng.chance(1, 3);
    let foreign: Option<Pool> = if rng.chance(1, 4) { Some(make_pool(rng.range(1, 2))) } else { None };
    if foreign.is_some() {
        rep.metric("dispatch_called_from_a_foreign_pool_worker", 1);
    }
    rep.metric("warmup_dispatches", warmup as i64);
    let plain = ctxt == Ctxt::UserPool && foreign.is_none() && !plan.items.iter().any(|i| matches!(i, Item::Tl(_)));
    let nested_in_system_of: Option<Pool> = if plain && rng.chance(1, 4) { Some(make_pool(rng.range(1, 2))) } else { None };
    let busy_neighbour = if matches!(ctxt, Ctxt::UserPool | Ctxt::Async | Ctxt::BatchInner) && nested_in_system_of.is_none() && rng.chance(1, 5) { pool_size.clamp(2, 16) } else { 0 };
    if nested_in_system_of.is_some() {
        rep.metric("dispatched_from_inside_a_system_of_another_dispatcher", 1);
    }
    if busy_neighbour > 0 {
        rep.metric("busy_neighbour_dispatchers", 1);
    }
    let sc = Scenario { plan: plan.clone(), ev, reps, pts: pts.clone(), ctxt, pool: use_pool.cloned(), warmup, back_to_back, par_only, foreign: foreign.clone(), pool_last, nested_in_system_of, busy_neighbour };
    let first = run_scenario_bounded(&sc);
    if first.is_none() {
        // The dispatch never came back although every wait inside it is bounded (4 s): the
        // dispatcher dead-locked. Verdict only if it does so again and a fresh pool of the same
        // size is healthy.
        rep.metric("scenarios_that_did_not_return", 1);
        let again = run_scenario_bounded(&sc);
        let ctl_pool: Pool = make_pool(pool_size);
        if again.is_none() && control(&ctl_pool, w) {
            rep.violation(
                &format!("dispatch_did_not_return:{:?}", ctxt),
                &format!(
                    "a dispatch of a stage with {} groups on a pool of {} threads ({:?}, back-to-back requests: {}) did not return within 90 s, twice, although every wait inside the systems is bounded by {:?}; a plain rendezvous on a fresh pool of that size succeeds: the dispatch dead-locked; layout {}",
                    w, pool_size, ctxt, back_to_back, WAIT, twin.layout.brief()
                ),
                case_no,
                J::obj().set("plan", plan.to_json()).set("layout", twin.layout.to_json()).set("pool", pool_size).set("context", format!("{:?}", ctxt)),
            );
        } else {
            rep.inconclusive += 1;
            rep.notes.push(format!("case {}: a scenario did not return once (width {}, pool {}): no verdict", case_no, w, pool_size));
        }
        return;
    }
    let (mut completed, mut gave_up) = first.unwrap();
    if gave_up > 0 {
        // reproduce before believing it: the whole scenario once more on a fresh dispatcher
        rep.metric("failed_rendezvous_retried", 1);
        let (c2, g2) = run_scenario_bounded(&sc).unwrap_or((0, 1));
        if g2 == 0 {
            rep.metric("failed_rendezvous_not_reproduced", 1);
            rep.inconclusive += 1;
            rep.notes.push(format!("case {}: a rendezvous of width {} failed once and succeeded when the scenario was repeated: no verdict", case_no, w));
            gave_up = 0;
            completed = c2;
        }
    }
    rep.metric("rendezvous_completed", (completed / w.max(1)) as i64);
    rep.metric("dispatches", reps as i64);
    rep.metric_max("rendezvous_ms_per_dispatch_x1000", (t0.elapsed().as_micros() as i64) / reps.max(1) as i64);
    if gave_up > 0 {
        // differential control on an equivalent pool
        let ctl_pool: Pool = if default_pool {
            Arc::new(rayon::ThreadPoolBuilder::new().build().expect("default pool"))
        } else {
            pool.clone()
        };
        let n = ctl_pool.current_num_threads();
        if n >= w + extra && control(&ctl_pool, w) {
            rep.violation(
                &format!("rendezvous_failed:{:?}", ctxt),
                &format!(
                    "{} systems placed side by side in one stage could not all be inside run at the same time within {:?} on a pool of {} threads ({:?}), although {} plain closures on the same pool rendezvous fine; layout {}",
                    w, WAIT, n, ctxt, w, twin.layout.brief()
                ),
                case_no,
                J::obj().set("plan", plan.to_json()).set("layout", twin.layout.to_json()).set("pool", pool_size).set("context", format!("{:?}", ctxt)),
            );
        } else {
            rep.inconclusive += 1;
            rep.notes.push(format!("case {}: rendezvous and control both failed (pool {} threads, width {}): machine problem, no verdict", case_no, n, w));
        }
        return;
    }
    if completed > 0 {
        rep.nontrivial(mix(mix(w as u64, pool_size as u64), ctxt as u64 * 2 + prefix as u64));
    }
    if rep.samples.len() < rep.max_samples {
        rep.sample(
            J::obj()
                .set("case", case_no)
                .set("context", format!("{:?}", ctxt))
                .set("width", w)
                .set("pool", pool_size)
                .set("layout", twin.layout.to_json())
                .set("dispatches", reps)
                .set("rendezvous_completed", completed / w.max(1)),
        );
    }
}

pub fn run(args: &Args) -> i32 {
    let mut rep = Report::new(args);
    let n = args.count(384, 2400);
    let reps = if args.thorough { 100 } else { 30 };
    let range: Vec<u64> = match args.case {
        Some(c) => vec![c],
        None => (0..n).collect(),
    };
    // every other shard runs with a small default pool (configuration: RAYON_NUM_THREADS); pools
    // that the harness supplies itself are sized explicitly and do not depend on it
    if args.shard % 2 == 1 && std::env::var("RAYON_NUM_THREADS").is_err() {
        std::env::set_var("RAYON_NUM_THREADS", "3");
    }
    rep.metric_max("default_pool_threads", default_threads() as i64);
    for c in range {
        if rep.time_up() {
            break;
        }
        let mut rng = Rng::new(args.case_seed(c));
        guard_case(&mut rep, c, |rep| case(&mut rng, rep, c, reps));
    }
    rep.finish();
    0
}
