//! The scheduling family (C01, C02, C03, C07, C10, C12): generated plans, L-oracle on the recovered
//! layout, perturbed executions judged by the E-oracle.

use std::sync::atomic::Ordering::SeqCst;
use std::sync::Arc;
use std::time::Duration;

use crate::ctx::*;
use crate::exec::*;
use crate::gen::*;
use crate::json::{hex, J};
use crate::layout::Layout;
use crate::oracle::*;
use crate::plan::*;
use crate::report::*;
use crate::rng::{mix, Rng};
#[allow(unused_imports)]
use crate::sys::Pool;

pub const POOL_SIZES: [usize; 7] = [1, 2, 3, 4, 8, 16, 16];

#[derive(Clone, Copy, PartialEq, Eq, Debug)]
pub enum RunMode {
    Sync(DMode),
    Async,
}

impl RunMode {
    pub fn name(self) -> &'static str {
        match self {
            RunMode::Sync(m) => m.name(),
            RunMode::Async => "async dispatch+wait",
        }
    }
    pub fn parallel(self) -> bool {
        match self {
            RunMode::Sync(m) => m.parallel(),
            RunMode::Async => true,
        }
    }
    pub fn runs_tl(self) -> bool {
        match self {
            RunMode::Sync(m) => m.runs_tl(),
            RunMode::Async => true,
        }
    }
    pub fn outer(self) -> &'static str {
        match self {
            RunMode::Sync(m) => m.outer(),
            RunMode::Async => "async",
        }
    }
}

pub fn pick_mode(rng: &mut Rng) -> RunMode {
    match rng.below(10) {
        0..=2 => RunMode::Sync(DMode::Dispatch),
        3 => RunMode::Sync(DMode::RunNow),
        4 | 5 => RunMode::Sync(DMode::Par),
        6 => RunMode::Sync(DMode::Seq),
        7 => RunMode::Sync(DMode::SeqTl),
        _ => {
            if cfg!(feature = "parallel") {
                RunMode::Async
            } else {
                RunMode::Sync(DMode::Dispatch)
            }
        }
    }
}

/// Rendezvous points for forced overlap: the k-th members of all groups of one stage, at every
/// level of the layout tree.
pub fn overlap_points(l: &Layout, out: &mut Vec<Vec<u32>>) {
    for st in &l.stages {
        if st.len() >= 2 {
            let depth = st.iter().map(|g| g.len()).max().unwrap_or(0);
            for k in 0..depth {
                let pt: Vec<u32> = st.iter().filter_map(|g| g.get(k).cloned()).collect();
                if pt.len() >= 2 {
                    out.push(pt);
                }
            }
        }
    }
    for inner in l.batches.values().flatten() {
        overlap_points(inner, out);
    }
}

/// Units that can finish while `target` (a top-level unit) is parked inside `run`.
pub fn can_finish_without(l: &Layout, target: u32, parallel: bool, pool_ok: bool) -> Vec<u32> {
    let pos = l.pos();
    let Some(&(ts, tg, tp)) = pos.get(&target) else { return vec![] };
    let mut v = Vec::new();
    for (si, st) in l.stages.iter().enumerate() {
        for (gi, g) in st.iter().enumerate() {
            for (pi, u) in g.iter().enumerate() {
                let free = if si < ts {
                    true
                } else if si > ts {
                    false
                } else if gi == tg {
                    pi < tp
                } else if parallel {
                    pool_ok
                } else {
                    gi < tg
                };
                if free {
                    v.push(*u);
                }
            }
        }
    }
    v
}

/// A random linear extension of the per-group step orders of one stage (each unit contributes
/// fetch, body, release in that order; units of one group follow each other).
pub fn random_script(stage: &[Vec<u32>], rng: &mut Rng) -> Vec<(u32, u8)> {
    let seqs: Vec<Vec<(u32, u8)>> = stage
        .iter()
        .map(|g| g.iter().flat_map(|u| (0..3u8).map(move |s| (*u, s))).collect())
        .collect();
    let mut idx = vec![0usize; seqs.len()];
    let total: usize = seqs.iter().map(|s| s.len()).sum();
    let mut out = Vec::with_capacity(total);
    while out.len() < total {
        let avail: Vec<usize> = (0..seqs.len()).filter(|&i| idx[i] < seqs[i].len()).collect();
        let g = *rng.pick(&avail);
        out.push(seqs[g][idx[g]]);
        idx[g] += 1;
    }
    out
}

pub fn script_hash(s: &[(u32, u8)]) -> u64 {
    let mut h = 0x5c1u64;
    for (u, st) in s {
        h = mix(h, (*u as u64) << 2 | *st as u64);
    }
    h
}

#[derive(Default)]
pub struct ExecSummary {
    pub findings: Vec<Finding>,
    pub dispatches: usize,
    pub est: EStats,
    pub order_hashes: Vec<u64>,
    pub escaped_panics: Vec<String>,
    pub driver: String,
    pub hold_reached: usize,
    pub hold_capped: usize,
    pub hold_finished_during: usize,
    pub overlap_completed: usize,
    pub overlap_gave_up: usize,
    pub script_followed: usize,
    pub script_stuck: usize,
    pub inconclusive: usize,
    pub sample_events: Vec<String>,
    pub mode: String,
    pub pool: usize,
    pub harness_violations: Vec<String>,
    pub faulted_dispatches: usize,
    pub async_rounds_with_two_dispatches: usize,
    pub async_rounds_with_a_peek: usize,
}

fn add_stats(a: &mut EStats, b: &EStats) {
    a.windows += b.windows;
    a.conflict_pairs_checked += b.conflict_pairs_checked;
    a.dep_pairs_checked += b.dep_pairs_checked;
    a.barrier_pairs_checked += b.barrier_pairs_checked;
    a.unordered_pairs += b.unordered_pairs;
    a.unordered_overlaps += b.unordered_overlaps;
    a.tl_windows += b.tl_windows;
    a.inner_epochs += b.inner_epochs;
    a.threads.extend(b.threads.iter().cloned());
}

#[derive(Clone, Debug)]
pub enum DriverPlan {
    Free,
    Jitter(u64, u8),
    Overlap,
    Hold(u32),
    Script(Vec<(u32, u8)>),
    /// long-running systems (milliseconds), ends of the groups of a stage far apart
    Slow(u64),
}

/// Decides the (E-oracle) verdict for one escaped panic payload.
pub fn panic_finding(msg: &str, mode: &str) -> Finding {
    match classify(msg) {
        PanicKind::BorrowConflict => Finding::new(
            &["C01", "C07"],
            "borrow_conflict_panic",
            format!("a borrow-conflict panic escaped {}: {:?} (every harness system fetched only what it declared)", mode, msg),
        ),
        // whatever its wording: no harness system panics by itself in these dispatches
        k => Finding::new(&["C01", "C07", "C14"], "unexpected_panic", format!("unexpected panic ({:?}) escaped {}: {:?} (no harness system panics by itself in this dispatch)", k, mode, msg)),
    }
}

/// Executes `ndisp` monitored dispatches of `inst` in a synchronous mode.
pub fn exec_sync(inst: &mut Inst, m: DMode, dp: &DriverPlan, ndisp: usize, pool_ok: bool, sum: &mut ExecSummary) {
    exec_sync_with_fault(inst, m, dp, ndisp, pool_ok, None, sum)
}

/// Like `exec_sync`; `fault = Some(uid)` makes that system panic in the first dispatch (the caller
/// catches it): ordering and isolation must hold in a dispatch that is cut short, too.
pub fn exec_sync_with_fault(inst: &mut Inst, m: DMode, dp: &DriverPlan, ndisp: usize, pool_ok: bool, fault: Option<u32>, sum: &mut ExecSummary) {
    sum.mode = m.name().to_string();
    sum.pool = inst.pool_size;
    for di in 0..ndisp {
        let ctx = inst.ctx.clone();
        let faulty = di == 0 && fault.is_some();
        if let (true, Some(v)) = (faulty, fault) {
            ctx.inject[v as usize].store(INJ_PANIC_RUN, SeqCst);
        }
        let mut hold: Option<Arc<Hold>> = None;
        let mut ov: Option<Arc<Overlap>> = None;
        let mut sc: Option<Arc<Script>> = None;
        // a parked system would wait in vain for systems that never run after the panic
        let jit = DriverPlan::Jitter(di as u64 + 991, 0);
        let dp = if faulty && matches!(dp, DriverPlan::Hold(_)) { &jit } else { dp };
        let driver: Arc<dyn Driver> = match dp {
            DriverPlan::Free => Arc::new(Free),
            DriverPlan::Jitter(s, lvl) => Arc::new(Jitter { seed: mix(*s, di as u64), level: *lvl }),
            DriverPlan::Overlap => {
                let mut pts = Vec::new();
                overlap_points(&inst.layout, &mut pts);
                let o = Arc::new(Overlap::new(pts, Duration::from_millis(if pool_ok { 250 } else { 2 })));
                ov = Some(o.clone());
                o
            }
            DriverPlan::Hold(t) => {
                let s = can_finish_without(&inst.layout, *t, m.parallel(), pool_ok);
                let mut hh = Hold::new(&ctx, *t, s, Duration::from_micros(1500), Duration::from_millis(1500));
                // every other time a sibling group of the target's stage is slow as well (it ends
                // milliseconds after the fast ones, while the target is still parked)
                if m.parallel() && pool_ok && di % 2 == 0 {
                    let pos = inst.layout.pos();
                    if let Some(&(ts, tg, _)) = pos.get(t) {
                        // any other group of the stage (not always the first one, which an executor
                        // may well run on the dispatching thread itself)
                        let others: Vec<u32> = inst.layout.stages[ts].iter().enumerate().filter(|(gi, _)| *gi != tg).filter_map(|(_, g)| g.last().cloned()).collect();
                        if !others.is_empty() {
                            let y = others[(*t as usize + di) % others.len()];
                            hh.stagger = Some((y, Duration::from_micros(2500 + 500 * (di as u64 % 3))));
                        }
                    }
                }
                let h = Arc::new(hh);
                hold = Some(h.clone());
                Arc::new(Both(Arc::new(Jitter { seed: di as u64 + 77, level: 0 }), h))
            }
            DriverPlan::Script(s) => {
                let x = Arc::new(Script::new(s.clone(), Duration::from_millis(1500)));
                sc = Some(x.clone());
                x
            }
            DriverPlan::Slow(s) => Arc::new(Slow { seed: mix(*s, di as u64) }),
        };
        sum.driver = driver.name();
        let out = inst.run(m, driver);
        sum.dispatches += 1;
        if let (true, Some(v)) = (faulty, fault) {
            ctx.inject[v as usize].store(INJ_NONE, SeqCst);
            let _ = crate::sys::take_pool_panics();
        }
        if out.overflow {
            sum.inconclusive += 1;
            continue;
        }
        let mut partial = false;
        if let Some(p) = &out.panic {
            if faulty && classify(p) == PanicKind::Injected {
                partial = true;
                sum.faulted_dispatches += 1;
            } else {
                sum.escaped_panics.push(p.clone());
                sum.findings.push(panic_finding(p, m.name()));
                continue;
            }
        }
        let opts = EOpts { expect_tl: m.runs_tl(), caller_thread: out.caller, outer_mode: m.outer(), top_mult: 1, partial, tl_mult: None };
        let st = e_oracle(&inst.plan, &out.events, &opts, &mut sum.findings);
        sum.order_hashes.push(st.order_hash);
        add_stats(&mut sum.est, &st);
        if let Some(h) = hold {
            match h.outcome.load(SeqCst) {
                1 => sum.hold_reached += 1,
                2 => {
                    sum.hold_capped += 1;
                    sum.inconclusive += 1;
                }
                _ => {}
            }
            sum.hold_finished_during += h.waits_for.len();
        }
        if let Some(o) = ov {
            sum.overlap_completed += o.completed.load(SeqCst);
            sum.overlap_gave_up += o.gave_up.load(SeqCst);
        }
        if let Some(s) = sc {
            if s.finished() {
                sum.script_followed += 1;
            } else {
                sum.script_stuck += 1;
                sum.inconclusive += 1;
            }
        }
        if sum.sample_events.is_empty() {
            sum.sample_events = out.events.iter().take(40).map(|e| e.show()).collect();
        }
        let hv = ctx.take_violations();
        for v in hv {
            if v.starts_with("torn") {
                sum.findings.push(Finding::new(&["C01", "C05", "C07"], "torn_value", v));
            } else {
                sum.harness_violations.push(v);
            }
        }
    }
}

/// Executes the plan on the async dispatcher (twin layout supplied by the caller).
#[cfg(feature = "parallel")]
pub fn exec_async(plan: &Plan, twin: &Layout, pool: &Pool, pool_size: usize, dp: &DriverPlan, ndisp: usize, pool_ok: bool, hseed: u64, sum: &mut ExecSummary) {
    use crate::sys::instantiate;
    use std::panic::{catch_unwind, AssertUnwindSafe};
    sum.mode = "async dispatch+wait".into();
    sum.pool = pool_size;
    let (ev, _) = plan_runs(plan);
    // a round may hold two dispatches
    let ctx = Ctx::new(plan.n_uids().max(1), 2 * ev + 64);
    let b = match catch_unwind(AssertUnwindSafe(|| instantiate(plan, &ctx, Some(pool)))) {
        Ok(b) => b,
        Err(_) => {
            sum.inconclusive += 1;
            return;
        }
    };
    let mut ad = b.build_async(crate::res::full_world_with(plan.slots_used().into_iter()));
    let (shape, ntl) = ad.verif_shape();
    if shape != twin.shape() || ntl != twin.tls.len() {
        sum.findings.push(Finding::new(
            &["C19", "C15"],
            "async_shape_differs",
            format!("async dispatcher has shape {:?}/{} but the synchronous twin has {:?}/{}", shape, ntl, twin.shape(), twin.tls.len()),
        ));
        return;
    }
    for di in 0..ndisp {
        let mut hold: Option<Arc<Hold>> = None;
        let mut ov: Option<Arc<Overlap>> = None;
        let driver: Arc<dyn Driver> = match dp {
            DriverPlan::Overlap => {
                let mut pts = Vec::new();
                overlap_points(twin, &mut pts);
                let o = Arc::new(Overlap::new(pts, Duration::from_millis(if pool_ok { 250 } else { 2 })));
                ov = Some(o.clone());
                o
            }
            DriverPlan::Hold(t) => {
                let s = can_finish_without(twin, *t, true, pool_ok);
                let h = Arc::new(Hold::new(&ctx, *t, s, Duration::from_micros(1500), Duration::from_millis(1500)));
                hold = Some(h.clone());
                h
            }
            DriverPlan::Jitter(s, lvl) => Arc::new(Jitter { seed: mix(*s, di as u64), level: *lvl }),
            DriverPlan::Slow(s) => Arc::new(Slow { seed: mix(*s, di as u64) }),
            _ => Arc::new(Free),
        };
        sum.driver = driver.name();
        ctx.log.reset();
        ctx.arm(driver);
        ctx.set_mode(Mode::Run);
        let caller = tid();
        ctx.disp_begin();
        // a small history per round: one or two dispatch requests back to back, optionally a
        // non-blocking / blocking look at the dispatcher, then wait()
        let hb = mix(hseed, di as u64);
        let k = if hb % 3 == 0 { 2 } else { 1 };
        let peek = (hb >> 8) % 6;
        let r = catch_unwind(AssertUnwindSafe(|| {
            for _ in 0..k {
                ad.dispatch();
            }
            match peek {
                0 => {
                    let _ = ad.running();
                }
                1 => {
                    let t = std::time::Instant::now();
                    while ad.running() && t.elapsed() < Duration::from_secs(8) {
                        std::thread::yield_now();
                    }
                }
                2 => {
                    let _ = ad.world();
                }
                3 => ad.wait_without_tl(),
                _ => {}
            }
            ad.wait();
        }));
        ctx.disp_end();
        sum.async_rounds_with_two_dispatches += (k == 2) as usize;
        sum.async_rounds_with_a_peek += (peek < 4) as usize;
        ctx.set_mode(Mode::Build);
        ctx.disarm();
        sum.dispatches += 1;
        if let Err(p) = r {
            let msg = payload_str(&*p);
            let pool_panics = crate::sys::take_pool_panics();
            let mut any = false;
            for pp in &pool_panics {
                any = true;
                sum.escaped_panics.push(pp.clone());
                sum.findings.push(panic_finding(pp, "async dispatch"));
            }
            if !any {
                sum.escaped_panics.push(msg.clone());
                sum.findings.push(panic_finding(&msg, "async dispatch"));
            }
            return; // the async dispatcher is not usable after a lost state
        }
        if ctx.log.overflow.load(SeqCst) {
            sum.inconclusive += 1;
            continue;
        }
        let evs = ctx.log.since(0);
        let opts = EOpts { expect_tl: true, caller_thread: caller, outer_mode: "async", top_mult: k, partial: false, tl_mult: Some(1) };
        let st = e_oracle(plan, &evs, &opts, &mut sum.findings);
        sum.order_hashes.push(st.order_hash);
        add_stats(&mut sum.est, &st);
        if let Some(h) = hold {
            match h.outcome.load(SeqCst) {
                1 => sum.hold_reached += 1,
                2 => {
                    sum.hold_capped += 1;
                    sum.inconclusive += 1;
                }
                _ => {}
            }
        }
        if let Some(o) = ov {
            sum.overlap_completed += o.completed.load(SeqCst);
            sum.overlap_gave_up += o.gave_up.load(SeqCst);
        }
        if sum.sample_events.is_empty() {
            sum.sample_events = evs.iter().take(40).map(|e| e.show()).collect();
        }
        for v in ctx.take_violations() {
            if v.starts_with("torn") {
                sum.findings.push(Finding::new(&["C01", "C05", "C07"], "torn_value", v));
            } else {
                sum.harness_violations.push(v);
            }
        }
    }
}

// ------------------------------------------------------------------------------------------------

fn profiles_for(prop: &str) -> &'static [Profile] {
    use Profile::*;
    match prop {
        "c01" => &[SparseWide, Dense, Dense, Funnel, Mixed, Mixed, Batchy, DepFans, Tiny, Tiny, WideStage],
        "c02" => &[DepChains, DepChains, DepChains, DepFans, DepFans, DepFans, Mixed, Mixed, Batchy, Batchy, Tiny, Tiny, WideStage],
        "c03" => &[BarrierHeavy, BarrierHeavy, BarrierHeavy, BarrierHeavy, BarrierHeavy, BarrierHeavy, Mixed, Mixed, Batchy, Batchy, Huge, WideStage],
        "c07" => &[Batchy],
        "c10" => &[SparseWide, Dense, Funnel, DepChains, DepFans, BarrierHeavy, Batchy, Names, Mixed, Tiny, Huge, WideStage],
        "c12" => &[Mixed, Batchy, Tiny, SparseWide],
        _ => &[Mixed],
    }
}

/// Extra plan shaping per property.
fn shape_cfg(prop: &str, c: &mut LevelCfg, rng: &mut Rng) {
    match prop {
        "c12" => {
            c.tl = if rng.chance(1, 4) { (0, 0) } else { (1, 6) };
            if c.depth_left > 0 && c.p_batch < 20 {
                c.p_batch = 25;
            }
        }
        "c07" => {
            c.p_batch = 45;
            c.depth_left = rng.range(1, 3);
            c.n = (2, 7);
            c.p_static = 30;
            if rng.chance(1, 6) {
                // long access lists: systems and batches with dozens of resources each, so that a
                // group's combined list runs to 32..100+ entries
                c.slots = crate::res::Slot::all_ext().collect();
                c.p_wide = rng.range(20, 60);
                c.max_r = 3;
                c.max_w = 3;
                c.n = (3, 9);
                c.p_static = 10;
            } else {
                // few slots so that the batch's access matters to its outer siblings
                let all: Vec<_> = crate::res::Slot::all().filter(|s| s.dy() == 0).collect();
                let k = rng.range(3, 8);
                c.slots = pick_slots(rng, &all, k);
            }
        }
        "c03" => {
            if c.n.0 >= 200 {
                // long registration sequences: barriers after 255..257 / 511..513 registrations
                c.seg_boundary = true;
                c.p_barrier = 0;
            } else if c.p_barrier < 15 {
                c.p_barrier = 20;
            }
            c.tl = (0, 2);
        }
        "c02" if c.n.0 >= 200 => {
            // one very wide stage: dependencies on systems that sit in far groups
            c.p_dep = rng.range(3, 12);
            c.p_noaccess = rng.range(85, 100);
        }
        "c02" => {
            c.p_static = 5;
            // every 10th plan: a long registration sequence with many multi-dependency systems
            if rng.chance(1, 10) {
                c.n = (66, 160);
                c.p_dep = 45;
                c.max_deps = 4;
                c.p_old_dep = 80;
                c.p_barrier = 1;
            }
        }
        _ => {}
    }
}

/// Sanitizer-sized workloads (Miri): tiny plans, small pools.
pub static TINY: std::sync::atomic::AtomicBool = std::sync::atomic::AtomicBool::new(false);

pub fn tiny() -> bool {
    TINY.load(SeqCst)
}

pub fn gen_for(prop: &str, rng: &mut Rng) -> (Plan, Profile) {
    let profs = profiles_for(prop);
    let mut p = *rng.pick(profs);
    if tiny() && p != Profile::Batchy {
        p = Profile::Tiny;
    }
    let mut c = cfg_for(p, rng);
    shape_cfg(prop, &mut c, rng);
    if tiny() {
        c.n = (2, 5);
        c.max_batches = 2;
        c.depth_left = c.depth_left.min(2);
    }
    (gen_with(rng, &c), p)
}

fn pick_driver(prop: &str, rng: &mut Rng, inst: &Inst, mode: RunMode, pool_ok: bool) -> DriverPlan {
    let rel = Relations::of(&inst.plan);
    let l = &inst.layout;
    let par = mode.parallel();
    let script_stage = || -> Option<Vec<Vec<u32>>> {
        l.stages
            .iter()
            .filter(|s| s.len() >= 2 && s.len() <= 3 && s.iter().map(|g| g.len()).sum::<usize>() <= 5)
            .filter(|s| s.iter().flatten().all(|u| !l.batches.contains_key(u)))
            .next()
            .cloned()
    };
    let jitter = |rng: &mut Rng| DriverPlan::Jitter(rng.next(), if rng.chance(1, 5) { 1 } else { 0 });
    // now and then (small plans, parallel modes): systems that run for milliseconds
    let slow_share = match prop {
        "c02" | "c03" => 5,
        "c12" => 8,
        _ => 12,
    };
    if par && inst.plan.n_systems_total() <= 14 && inst.layout.has_parallel_stage() && rng.chance(1, slow_share) {
        return DriverPlan::Slow(rng.next());
    }
    match prop {
        "c02" => {
            // hold a dependency source
            let srcs: Vec<u32> = (0..rel.units.len())
                .filter(|&i| (0..rel.units.len()).any(|y| rel.deps[y].contains(&i)))
                .map(|i| rel.units[i].uid)
                .collect();
            if !srcs.is_empty() && rng.chance(4, 5) {
                DriverPlan::Hold(*rng.pick(&srcs))
            } else {
                jitter(rng)
            }
        }
        "c03" => {
            let last_seg = rel.segment.last().cloned().unwrap_or(0);
            let pre: Vec<u32> = (0..rel.units.len()).filter(|&i| rel.segment[i] < last_seg).map(|i| rel.units[i].uid).collect();
            // prefer a pre-barrier system whose stage has three or more groups: then a second group
            // can be kept slow as well and a third one ends early (staggered ends of one stage)
            let pos = l.pos();
            let wide: Vec<u32> = pre.iter().cloned().filter(|u| pos.get(u).map_or(false, |p| l.stages[p.0].len() >= 3 && p.1 > 0)).collect();
            if !wide.is_empty() && rng.chance(2, 3) {
                DriverPlan::Hold(*rng.pick(&wide))
            } else if !pre.is_empty() && rng.chance(4, 5) {
                DriverPlan::Hold(*rng.pick(&pre))
            } else if !rel.units.is_empty() && rng.chance(1, 2) {
                // hold any ordinary system: thread-local systems must still wait
                DriverPlan::Hold(rel.units[rng.below(rel.units.len())].uid)
            } else {
                jitter(rng)
            }
        }
        "c12" => {
            if !rel.units.is_empty() && rng.chance(1, 2) {
                DriverPlan::Hold(rel.units[rng.below(rel.units.len())].uid)
            } else if par && pool_ok && rng.chance(1, 3) {
                DriverPlan::Overlap
            } else {
                jitter(rng)
            }
        }
        "c07" => {
            let batches: Vec<u32> = inst.plan.batches().iter().map(|b| b.uid).collect();
            match rng.below(10) {
                0..=3 if par && pool_ok => DriverPlan::Overlap,
                4 | 5 if !batches.is_empty() => DriverPlan::Hold(*rng.pick(&batches)),
                _ => jitter(rng),
            }
        }
        _ => match rng.below(10) {
            0..=3 if par && pool_ok => DriverPlan::Overlap,
            4 | 5 if par && pool_ok => match script_stage() {
                Some(st) => DriverPlan::Script(random_script(&st, rng)),
                None => DriverPlan::Overlap,
            },
            9 => DriverPlan::Free,
            _ => jitter(rng),
        },
    }
}

fn total_conflict_pairs(plan: &Plan) -> usize {
    let rel = Relations::of(plan);
    let n = rel.units.len().min(80);
    let mut c = 0;
    for i in 0..n {
        for j in 0..i {
            if rel.conflict(i, j) {
                c += 1;
            }
        }
    }
    for b in plan.batches() {
        c += total_conflict_pairs(&b.inner);
    }
    c
}

/// One generated case of a scheduling-family property.
pub fn case(prop: &str, up: &'static str, rng: &mut Rng, pools: &mut Pools, rep: &mut Report, case_no: u64, execute: bool) {
    let (plan, profile) = gen_for(prop, rng);
    let pool_size = if tiny() { rng.range(1, 3) } else { *rng.pick(&POOL_SIZES) };
    let pool = pools.get(pool_size);
    rep.evaluations += 1;
    rep.metric("plans", 1);
    rep.metric(&format!("profile_{}", profile.name()), 1);
    let detail = |plan: &Plan, l: Option<&Layout>| {
        let mut d = J::obj().set("profile", profile.name()).set("pool", pool_size).set("plan", plan.to_json());
        if let Some(l) = l {
            d.put("layout", l.to_json());
        }
        d
    };
    let mut inst = match build(&plan, Some(&pool), pool_size, 64) {
        Ok(i) => i,
        Err(e) => {
            if let Some(m) = e.strip_prefix("LAYOUT:") {
                if up == "C04" || up == "C07" {
                    rep.violation("identification", m, case_no, detail(&plan, None));
                } else {
                    rep.metric("other_property_findings", 1);
                }
            } else {
                // a well-formed plan must build (that is C18's business)
                rep.metric("builder_panics_seen", 1);
                rep.inconclusive += 1;
                rep.notes.push(format!("case {}: {}", case_no, e));
            }
            return;
        }
    };
    let mut findings = Vec::new();
    let mut lst = LStats::default();
    l_oracle(&plan, &inst.layout, "top", 0, inst.max_threads, &mut findings, &mut lst);
    rep.metric("units", lst.units as i64);
    rep.metric("levels", lst.levels as i64);
    rep.metric("layout_same_stage_conflict_pairs", lst.conflict_pairs as i64);
    rep.metric("dep_edges", lst.dep_edges as i64);
    rep.metric("effective_barriers", lst.barrier_pairs as i64);
    rep.metric("batches", lst.batches as i64);
    rep.metric("parallel_stages", lst.parallel_stages as i64);
    rep.metric_max("stages", inst.layout.stages.len() as i64);
    rep.metric_max("width", inst.layout.width_deep() as i64);
    rep.set_add("layouts", inst.layout.hash());

    // C12: now and then the dispatcher first goes through a setup call in which the setup hook of
    // one of its thread-local systems panics (the caller catches it): its thread-local systems are
    // all still there afterwards - they run, in order, and the conversion is still refused
    if up == "C12" && rng.chance(1, 8) {
        let tls: Vec<u32> = plan.tls().iter().map(|t| t.uid).collect();
        if !tls.is_empty() {
            let v = tls[rng.below(tls.len())];
            inst.ctx.inject[v as usize].store(INJ_PANIC_SETUP, SeqCst);
            let world = &mut inst.world;
            let d = inst.disp.as_mut().expect("dispatcher");
            let _ = std::panic::catch_unwind(std::panic::AssertUnwindSafe(|| d.setup(world)));
            inst.ctx.inject[v as usize].store(INJ_NONE, SeqCst);
            rep.metric("setup_calls_with_a_panicking_thread_local_hook", 1);
        }
    }
    let mut sum = ExecSummary::default();
    let need = threads_needed(&inst.layout);
    let pool_ok = pool_size >= need;
    let small = plan.n_systems_total() <= 80;
    let mut mode = RunMode::Sync(DMode::Seq);
    if execute && small {
        mode = pick_mode(rng);
        let dp = pick_driver(prop, rng, &inst, mode, pool_ok);
        let ndisp = if tiny() { 2 } else { rng.range(2, 3) };
        // every sixth executed plan: one system panics in the first dispatch (caught by the caller)
        let fault = if rng.chance(1, 6) {
            let mut v = Vec::new();
            plan.walk(&mut |it, d| match it {
                Item::Sys(s) => v.push(s.uid),
                // a failing thread-local system (top level) for the thread-local property
                Item::Tl(t) if up == "C12" && d == 0 && mode.runs_tl() => {
                    v.push(t.uid);
                    v.push(t.uid);
                }
                _ => {}
            });
            if v.is_empty() { None } else { Some(*rng.pick(&v)) }
        } else {
            None
        };
        match mode {
            RunMode::Sync(m) => exec_sync_with_fault(&mut inst, m, &dp, ndisp, pool_ok, fault, &mut sum),
            RunMode::Async => {
                #[cfg(feature = "parallel")]
                exec_async(&plan, &inst.layout, &pool, pool_size, &dp, ndisp, pool_ok, rng.next(), &mut sum);
            }
        }
        findings.append(&mut sum.findings);
        rep.metric("executed_plans", 1);
        rep.metric("dispatches", sum.dispatches as i64);
        rep.metric("windows", sum.est.windows as i64);
        rep.metric("conflict_pairs_checked", sum.est.conflict_pairs_checked as i64);
        rep.metric("dep_pairs_checked", sum.est.dep_pairs_checked as i64);
        rep.metric("barrier_pairs_checked", sum.est.barrier_pairs_checked as i64);
        rep.metric("unordered_pairs", sum.est.unordered_pairs as i64);
        rep.metric("unordered_overlaps_observed", sum.est.unordered_overlaps as i64);
        rep.metric("tl_windows", sum.est.tl_windows as i64);
        rep.metric("inner_epochs", sum.est.inner_epochs as i64);
        rep.metric("dispatches_cut_short_by_an_injected_panic", sum.faulted_dispatches as i64);
        rep.metric("async_rounds_with_two_dispatches", sum.async_rounds_with_two_dispatches as i64);
        rep.metric("async_rounds_with_a_peek", sum.async_rounds_with_a_peek as i64);
        rep.metric("hold_reached", sum.hold_reached as i64);
        rep.metric("hold_capped", sum.hold_capped as i64);
        rep.metric("overlap_rendezvous_completed", sum.overlap_completed as i64);
        rep.metric("overlap_rendezvous_gave_up", sum.overlap_gave_up as i64);
        rep.metric("scripts_followed", sum.script_followed as i64);
        rep.metric("scripts_stuck", sum.script_stuck as i64);
        rep.metric(&format!("mode_{}", mode.name().replace([' ', '+'], "_")), 1);
        rep.metric(&format!("pool_{}", pool_size), 1);
        rep.metric_max("threads_seen_in_one_plan", sum.est.threads.len() as i64);
        rep.inconclusive += sum.inconclusive as u64;
        for h in &sum.order_hashes {
            rep.set_add("event_orders", *h);
        }
        for v in &sum.harness_violations {
            rep.notes.push(format!("case {}: harness: {}", case_no, v));
            rep.inconclusive += 1;
        }
    }

    // ---- conversion to the sendable form (C12): Ok exactly when there is no thread-local
    // system, and the plan survives the conversion (either way) ----
    if up == "C12" {
        check_sendable(&mut inst, &mut findings, rep);
    }

    // ---- verdicts of this property ----
    let mut reported = std::collections::BTreeSet::new();
    for f in &findings {
        if f.is(up) {
            if reported.insert(f.kind.clone()) {
                let mut d = detail(&plan, Some(&inst.layout));
                d.put("mode", mode.name());
                d.put("driver", sum.driver.as_str());
                d.put("events", J::Arr(sum.sample_events.iter().map(|s| J::Str(s.clone())).collect()));
                rep.violation(&f.kind, &f.msg, case_no, d);
            }
        } else {
            rep.metric("other_property_findings", 1);
        }
    }

    // ---- non-triviality by property ----
    let lh = inst.layout.hash();
    let ph = plan.hash();
    let par_stage = inst.layout.has_parallel_stage();
    let nontrivial = match up {
        "C01" => total_conflict_pairs(&plan) > 0 && par_stage && sum.est.unordered_overlaps > 0,
        "C02" => lst.dep_edges > 0 && (sum.hold_reached > 0 || sum.est.dep_pairs_checked > 0),
        "C03" => lst.barrier_only_pairs > 0,
        "C07" => lst.batch_extra_access > 0 && plan.n_units() >= 2,
        "C10" => lst.c10_skipped_stages > 0,
        "C12" => sum.est.tl_windows > 0 && plan.n_units() >= 1,
        _ => true,
    };
    if nontrivial {
        let key = match up {
            "C01" => mix(mix(lh, pool_size as u64), sum.order_hashes.first().cloned().unwrap_or(0)),
            "C02" | "C12" => mix(ph, crate::rng::hash_str(&sum.driver)),
            _ => lh ^ ph.rotate_left(7),
        };
        rep.nontrivial(key);
    }
    rep.metric("c10_skipped_stages_justified", lst.c10_skipped_stages as i64);
    rep.metric("barrier_only_pairs", lst.barrier_only_pairs as i64);
    rep.metric("batches_with_access_beyond_controller", lst.batch_extra_access as i64);
    if rep.samples.len() < rep.max_samples && (nontrivial || rep.evaluations > 20) {
        let mut sj = J::obj()
            .set("case", case_no)
            .set("profile", profile.name())
            .set("plan", plan.to_json())
            .set("layout", inst.layout.to_json())
            .set("layout_hash", hex(lh));
        if sum.dispatches > 0 {
            sj.put("mode", mode.name());
            sj.put("pool", pool_size);
            sj.put("driver", sum.driver.as_str());
            sj.put("unordered_overlaps_observed", sum.est.unordered_overlaps);
            sj.put("first_events", J::Arr(sum.sample_events.iter().take(24).map(|s| J::Str(s.clone())).collect()));
        }
        rep.sample(sj);
    }
}

/// `try_into_sendable` is Ok exactly when the dispatcher has no thread-local systems; the
/// converted dispatcher (or the dispatcher handed back in `Err`) has the same layout and still
/// runs every system exactly once.
fn check_sendable(inst: &mut Inst, findings: &mut Vec<Finding>, rep: &mut Report) {
    let Some(d) = inst.disp.take() else { return };
    let has_tl = !inst.plan.tls().is_empty();
    let n_uids = inst.plan.n_uids();
    let before = inst.ctx.run_counts();
    match d.try_into_sendable() {
        Ok(mut sd) => {
            rep.metric("sendable_ok", 1);
            if has_tl {
                findings.push(Finding::new(&["C12"], "sendable_with_thread_local", format!("try_into_sendable returned Ok although {} thread-local system(s) are registered", inst.plan.tls().len())));
            }
            if sd.verif_shape() != inst.layout.shape() {
                findings.push(Finding::new(&["C12"], "sendable_changed_plan", format!("the sendable dispatcher has shape {:?}, the dispatcher had {:?}", sd.verif_shape(), inst.layout.shape())));
                return;
            }
            // identification run on the converted dispatcher: same systems at the same places
            inst.ctx.set_mode(Mode::Identify);
            let _ = inst.ctx.take_ident();
            sd.dispatch_seq(&inst.world);
            inst.ctx.set_mode(Mode::Build);
            match crate::layout::parse_ident(&sd.verif_shape(), 0, inst.ctx.take_ident()) {
                Ok(l) => {
                    if l.stages != inst.layout.stages {
                        findings.push(Finding::new(&["C12"], "sendable_changed_plan", format!("after conversion the plan is {}, before it was {}", l.brief(), inst.layout.brief())));
                    }
                }
                Err(e) => findings.push(Finding::new(&["C12"], "sendable_changed_plan", format!("after conversion: {}", e))),
            }
            inst.ctx.set_mode(Mode::Quiet);
            let r = std::panic::catch_unwind(std::panic::AssertUnwindSafe(|| sd.dispatch(&inst.world)));
            inst.ctx.set_mode(Mode::Build);
            if r.is_ok() {
                let e1 = expected_counts(&inst.plan, DMode::Par, n_uids);
                let now = inst.ctx.run_counts();
                for u in 1..n_uids {
                    if now[u] - before[u] != e1[u] {
                        findings.push(Finding::new(&["C12", "C04"], "sendable_run_count", format!("after conversion u{} ran {} times in one dispatch, expected {}", u, now[u] - before[u], e1[u])));
                        break;
                    }
                }
            }
        }
        Err(mut d) => {
            rep.metric("sendable_refused", 1);
            if !has_tl {
                findings.push(Finding::new(&["C12"], "sendable_refused", "try_into_sendable refused a dispatcher without thread-local systems".into()));
            }
            // the value handed back is the same dispatcher
            let (shape, ntl) = d.verif_shape();
            if shape != inst.layout.shape() || ntl != inst.layout.tls.len() {
                findings.push(Finding::new(&["C12"], "sendable_err_changed_plan", format!("the dispatcher handed back by try_into_sendable has shape {:?}/{} instead of {:?}/{}", shape, ntl, inst.layout.shape(), inst.layout.tls.len())));
            } else if let Ok(l2) = crate::layout::recover(&mut d, &inst.ctx, &inst.world) {
                // ... with its systems, thread-local ones included, where they were
                if l2.tls != inst.layout.tls || l2.stages != inst.layout.stages {
                    findings.push(Finding::new(
                        &["C12"],
                        "sendable_err_changed_plan",
                        format!("the dispatcher handed back by a refused try_into_sendable runs its thread-local systems in the order {:?}, before the call it was {:?} (registration order)", l2.tls, inst.layout.tls),
                    ));
                }
            }
            inst.ctx.set_mode(Mode::Quiet);
            let w = &inst.world;
            let r = std::panic::catch_unwind(std::panic::AssertUnwindSafe(|| d.dispatch(w)));
            inst.ctx.set_mode(Mode::Build);
            if r.is_ok() {
                let e1 = expected_counts(&inst.plan, DMode::Dispatch, n_uids);
                let now = inst.ctx.run_counts();
                for u in 1..n_uids {
                    if now[u] - before[u] != e1[u] {
                        findings.push(Finding::new(&["C12", "C04"], "sendable_err_run_count", format!("the dispatcher handed back by try_into_sendable ran u{} {} times in one dispatch, expected {}", u, now[u] - before[u], e1[u])));
                        break;
                    }
                }
            }
            inst.disp = Some(d);
        }
    }
    let _ = inst.ctx.take_violations();
}

/// C01, hand-made scenario: writers and readers of distinct resource types that all carry the
/// same *type name* (block-local types), dispatched on a pool: a reader never runs beside the
/// writer of its resource (the executor would be told so by a borrow-conflict panic).
fn c01_same_named_types(rep: &mut Report, case_no: u64) {
    rep.evaluations += 1;
    let pool = crate::sys::make_pool(4);
    let (_a, b, n0, n1) = crate::props::c19::same_named_builders(&pool);
    let mut d = b.build();
    let mut world = shred::World::empty();
    d.setup(&mut world);
    let r = std::panic::catch_unwind(std::panic::AssertUnwindSafe(|| {
        for _ in 0..300 {
            d.dispatch(&world);
        }
    }));
    rep.metric("same_named_type_dispatchers", 1);
    let _ = crate::sys::take_pool_panics();
    match r {
        Err(p) => {
            let msg = payload_str(&*p);
            rep.violation(
                if classify(&msg) == PanicKind::BorrowConflict { "borrow_conflict_panic:same_named_types" } else { "unexpected_panic:same_named_types" },
                &format!("systems over distinct resource types that share the type name {:?} / {:?}: a dispatch panicked: {}", n0, n1, msg),
                case_no,
                J::Null,
            );
        }
        Ok(()) => rep.nontrivial(0x5a3e_0101),
    }
}

/// C02 / C03 (one shard in the quick tier, four in the thorough tier): a builder with more than 2^16 stages (every filler system is
/// followed by a barrier), then a few named systems behind the last barrier that depend on one
/// another. Dependants sit strictly later than what they depend on, and nothing registered behind
/// the last barrier sits in or before a filler's stage.
fn deep_plan_case(rng: &mut Rng, up: &str, rep: &mut Report, case_no: u64) {
    use crate::sys::HSys;
    use shred::DispatcherBuilder;
    rep.evaluations += 1;
    let fillers = 65_536 + rng.range(0, 3);
    let ctx = Ctx::new(fillers + 16, 64);
    let pool = crate::sys::make_pool(1);
    let mut b = DispatcherBuilder::new();
    #[cfg(feature = "parallel")]
    b.add_pool(pool.clone());
    let _ = &pool;
    let sp = |uid: u32| SysSpec { uid, name: String::new(), deps: vec![], reads: vec![], writes: vec![], time: 3, kind: Kind::Dyn };
    for i in 0..fillers {
        b.add(HSys::new(&sp(i as u32 + 1), &ctx), "", &[]);
        b.add_barrier();
    }
    let base = fillers as u32 + 1;
    // p, late, x -> late, y -> {p, x}, z -> y
    let tail: [(&str, &[&str]); 5] = [("p", &[]), ("late", &[]), ("x", &["late"]), ("y", &["p", "x"]), ("z", &["y"])];
    for (i, (name, deps)) in tail.iter().enumerate() {
        b.add(HSys::new(&sp(base + i as u32), &ctx), name, deps);
    }
    let mut d = b.build();
    let world = crate::res::full_world();
    let layout = match crate::layout::recover(&mut d, &ctx, &world) {
        Ok(l) => l,
        Err(e) => {
            rep.metric("other_property_findings", 1);
            rep.notes.push(format!("case {}: {}", case_no, e));
            return;
        }
    };
    rep.metric("deep_plans", 1);
    rep.metric_max("stages", layout.stages.len() as i64);
    let pos = layout.pos();
    let at = |i: usize| pos.get(&(base + i as u32)).cloned();
    let mut problems: Vec<(String, String)> = Vec::new();
    let last_filler_stage = pos.get(&(fillers as u32)).map(|p| p.0).unwrap_or(0);
    for (i, (name, deps)) in tail.iter().enumerate() {
        let Some(me) = at(i) else {
            problems.push(("layout_missing".into(), format!("system {:?} is not in the layout", name)));
            continue;
        };
        if me.0 <= last_filler_stage {
            problems.push(("layout_barrier".into(), format!("{:?}, registered behind the last of {} barriers, sits in stage {} - not behind stage {} of the last system in front of that barrier", name, fillers, me.0, last_filler_stage)));
        }
        for dn in deps.iter() {
            let j = tail.iter().position(|t| t.0 == *dn).unwrap();
            if let Some(dp) = at(j) {
                let ok = dp.0 < me.0 || (dp.0 == me.0 && dp.1 == me.1 && dp.2 < me.2);
                if !ok {
                    problems.push(("layout_dep_not_before".into(), format!("in a plan of {} stages {:?} (stage {}, group {}, pos {}) depends on {:?} (stage {}, group {}, pos {}) but is not placed after it", layout.stages.len(), name, me.0, me.1, me.2, dn, dp.0, dp.1, dp.2)));
                }
            }
        }
    }
    let want = if up == "C03" { "layout_barrier" } else { "layout_dep_not_before" };
    let mut any = false;
    for (k, m) in &problems {
        if k == want || k == "layout_missing" {
            if !any {
                rep.violation(&format!("{}:deep_plan", k), m, case_no, J::obj().set("fillers_each_followed_by_a_barrier", fillers));
            }
            any = true;
        } else {
            rep.metric("other_property_findings", 1);
        }
    }
    if !any {
        rep.nontrivial(mix(0xdee9, fillers as u64));
    }
}

/// (uid, thread) of the thread-local starts in the log, in order.
fn tl_starts(evs: &[Event], of: &[u32]) -> Vec<(u32, u16)> {
    evs.iter().filter(|e| e.kind == Ev::TlStart && of.contains(&e.uid)).map(|e| (e.uid, e.thread)).collect()
}

/// C12, hand-made scenario: a whole dispatcher - with thread-local systems of its own -
/// registered as a thread-local system of another dispatcher (`Dispatcher` is a `RunNow`), nested
/// up to two deep. Per dispatch of the outermost one every thread-local system of every level
/// runs once, on the calling thread, in registration order (a nested dispatcher's systems at the
/// nested dispatcher's position).
fn c12_nested_tl_dispatcher(rng: &mut Rng, pools: &mut Pools, rep: &mut Report, case_no: u64) {
    use crate::sys::{HSys, HTl};
    use shred::DispatcherBuilder;
    rep.evaluations += 1;
    let pool_size = *rng.pick(&[1usize, 2, 4]);
    let pool = pools.get(pool_size);
    let mut uid = 1u32;
    let ctx = Ctx::new(64, 4096);
    let mut order: Vec<u32> = Vec::new();
    let mut desc: Vec<String> = Vec::new();
    // recursive construction, innermost first is not needed: build depth-first
    fn level(depth: usize, rng: &mut Rng, pool: &Pool, ctx: &Arc<Ctx>, uid: &mut u32, order: &mut Vec<u32>, desc: &mut Vec<String>) -> shred::Dispatcher<'static, 'static> {
        let mut b = DispatcherBuilder::new();
        #[cfg(feature = "parallel")]
        b.add_pool(pool.clone());
        let _ = pool;
        for _ in 0..rng.range(0, 2) {
            let sp = SysSpec { uid: *uid, name: String::new(), deps: vec![], reads: vec![], writes: vec![], time: 3, kind: Kind::Dyn };
            *uid += 1;
            b.add(HSys::new(&sp, ctx), "", &[]);
        }
        let before = rng.range(0, 2);
        let after = rng.range(1, 3);
        let nest_here = depth > 0;
        for _ in 0..before {
            let t = TlSpec { uid: *uid, reads: vec![], writes: vec![] };
            *uid += 1;
            order.push(t.uid);
            desc.push(format!("{}tl u{}", "  ".repeat(2 - depth.min(2)), t.uid));
            b.add_thread_local(HTl::new(&t, ctx));
        }
        if nest_here {
            desc.push(format!("{}nested dispatcher:", "  ".repeat(2 - depth.min(2))));
            let inner = level(depth - 1, rng, pool, ctx, uid, order, desc);
            b.add_thread_local(inner);
        }
        for _ in 0..after {
            let t = TlSpec { uid: *uid, reads: vec![], writes: vec![] };
            *uid += 1;
            order.push(t.uid);
            desc.push(format!("{}tl u{}", "  ".repeat(2 - depth.min(2)), t.uid));
            b.add_thread_local(HTl::new(&t, ctx));
        }
        b.build()
    }
    let depth = rng.range(1, 2);
    let mut d = level(depth, rng, &pool, &ctx, &mut uid, &mut order, &mut desc);
    let world = crate::res::full_world();
    let caller = tid();
    for di in 0..rng.range(2, 3) {
        ctx.log.reset();
        ctx.arm(Arc::new(Jitter { seed: rng.next(), level: 0 }));
        ctx.set_mode(Mode::Run);
        let how = rng.below(3);
        let r = std::panic::catch_unwind(std::panic::AssertUnwindSafe(|| match how {
            0 => d.dispatch(&world),
            1 => {
                d.dispatch_seq(&world);
                d.dispatch_thread_local(&world);
            }
            _ => shred::RunNow::run_now(&mut d, &world),
        }));
        ctx.set_mode(Mode::Build);
        ctx.disarm();
        if let Err(p) = r {
            rep.violation("dispatch_panicked:nested_dispatcher", &format!("dispatch #{} of a dispatcher that holds a nested dispatcher as a thread-local system panicked: {}", di + 1, payload_str(&*p)), case_no, J::obj().set("structure", J::from(desc.clone())));
            return;
        }
        let got = tl_starts(&ctx.log.since(0), &order);
        let want: Vec<(u32, u16)> = order.iter().map(|u| (*u, caller)).collect();
        if got != want {
            rep.violation(
                "tl_sequence:nested_dispatcher",
                &format!(
                    "dispatch #{} ({}): thread-local systems started as {:?} (uid, thread); registration order on the calling thread {} is {:?}",
                    di + 1,
                    ["dispatch", "dispatch_seq + dispatch_thread_local", "RunNow::run_now"][how],
                    got,
                    caller,
                    order
                ),
                case_no,
                J::obj().set("structure", J::from(desc.clone())),
            );
            return;
        }
    }
    rep.metric("nested_tl_dispatcher_cases", 1);
    rep.nontrivial(mix(0x12e5, mix(depth as u64, order.len() as u64)));
}

/// C12, hand-made scenario: a thread-local system panics inside `wait()` of the async dispatcher;
/// the caller catches it and calls `wait()` again (with or without a new `dispatch()`): that call
/// runs every thread-local system, from the first one, on the calling thread.
#[cfg(feature = "parallel")]
fn c12_async_wait_after_tl_panic(rng: &mut Rng, pools: &mut Pools, rep: &mut Report, case_no: u64) {
    use crate::sys::{HSys, HTl};
    use shred::DispatcherBuilder;
    rep.evaluations += 1;
    let pool_size = *rng.pick(&[1usize, 2, 4]);
    let pool = pools.get(pool_size);
    let ctx = Ctx::new(32, 2048);
    let mut b = DispatcherBuilder::new();
    b.add_pool(pool.clone());
    let mut uid = 1u32;
    for _ in 0..rng.range(0, 2) {
        let sp = SysSpec { uid, name: String::new(), deps: vec![], reads: vec![], writes: vec![], time: 3, kind: Kind::Dyn };
        uid += 1;
        b.add(HSys::new(&sp, &ctx), "", &[]);
    }
    let ntl = rng.range(2, 5);
    let mut order = Vec::new();
    for _ in 0..ntl {
        let t = TlSpec { uid, reads: vec![], writes: vec![] };
        uid += 1;
        order.push(t.uid);
        b.add_thread_local(HTl::new(&t, &ctx));
    }
    let mut ad = b.build_async(crate::res::full_world());
    let caller = tid();
    let victim = order[rng.below(order.len())];
    let mut history = Vec::new();
    ctx.set_mode(Mode::Run);
    ctx.arm(Arc::new(Free));
    for _ in 0..rng.range(0, 2) {
        ad.dispatch();
        ad.wait();
        history.push("dispatch, wait".to_string());
    }
    ctx.inject[victim as usize].store(INJ_PANIC_RUN, SeqCst);
    ad.dispatch();
    let r = std::panic::catch_unwind(std::panic::AssertUnwindSafe(|| ad.wait()));
    ctx.inject[victim as usize].store(INJ_NONE, SeqCst);
    history.push(format!("dispatch, wait in which thread-local u{} panics ({})", victim, if r.is_err() { "caught" } else { "no panic surfaced" }));
    if r.is_err() {
        for step in 0..rng.range(1, 3) {
            let redispatch = rng.chance(1, 2);
            if redispatch {
                ad.dispatch();
            }
            ctx.log.reset();
            let r2 = std::panic::catch_unwind(std::panic::AssertUnwindSafe(|| ad.wait()));
            history.push(if redispatch { "dispatch, wait".to_string() } else { "wait (no dispatch in between)".to_string() });
            if let Err(p) = r2 {
                rep.violation("wait_panicked_after_caught_tl_panic", &format!("wait() #{} after the caught panic panicked: {}", step + 1, payload_str(&*p)), case_no, J::obj().set("history", J::from(history.clone())));
                ctx.set_mode(Mode::Build);
                ctx.disarm();
                return;
            }
            let got = tl_starts(&ctx.log.since(0), &order);
            let want: Vec<(u32, u16)> = order.iter().map(|u| (*u, caller)).collect();
            if got != want {
                rep.violation(
                    "tl_sequence:wait_after_caught_tl_panic",
                    &format!("after a thread-local system panicked inside wait() (caught), a later wait() started the thread-local systems as {:?} (uid, thread); every one of {:?} is due, in this order, on thread {}", got, order, caller),
                    case_no,
                    J::obj().set("history", J::from(history.clone())),
                );
                ctx.set_mode(Mode::Build);
                ctx.disarm();
                return;
            }
        }
        rep.nontrivial(mix(0x12a5, mix(ntl as u64, victim as u64)));
    } else {
        rep.metric("other_property_findings", 1);
    }
    ctx.set_mode(Mode::Build);
    ctx.disarm();
    let _ = ctx.take_violations();
    rep.metric("async_wait_after_tl_panic_cases", 1);
}

/// C12, hand-made scenario: while a dispatch of the async dispatcher is in flight (one system is
/// parked inside run) the caller does something else with the dispatcher - setup, a second
/// dispatch, world_mut, wait_without_tl. None of that runs a thread-local system; the wait() that
/// follows runs each of them once, in order, on the calling thread.
#[cfg(feature = "parallel")]
fn c12_async_ops_in_flight(rng: &mut Rng, pools: &mut Pools, rep: &mut Report, case_no: u64) {
    use crate::props::c15::Latch;
    use crate::sys::{HSys, HTl};
    use shred::DispatcherBuilder;
    use std::sync::atomic::AtomicBool;
    use std::time::Instant;
    rep.evaluations += 1;
    let pool_size = *rng.pick(&[2usize, 3, 4]);
    let pool = pools.get(pool_size);
    let ctx = Ctx::new(32, 4096);
    let mut b = DispatcherBuilder::new();
    b.add_pool(pool.clone());
    let mut uid = 1u32;
    let nsys = rng.range(1, 3);
    let mut sys = Vec::new();
    for _ in 0..nsys {
        let sp = SysSpec { uid, name: String::new(), deps: vec![], reads: vec![], writes: vec![], time: 3, kind: Kind::Dyn };
        sys.push(uid);
        uid += 1;
        b.add(HSys::new(&sp, &ctx), "", &[]);
    }
    let mut order = Vec::new();
    for _ in 0..rng.range(1, 4) {
        let t = TlSpec { uid, reads: vec![], writes: vec![] };
        uid += 1;
        order.push(t.uid);
        b.add_thread_local(HTl::new(&t, &ctx));
    }
    let mut ad = b.build_async(crate::res::full_world());
    let caller = tid();
    ctx.set_mode(Mode::Run);
    let mut history = Vec::new();
    for _ in 0..rng.range(1, 3) {
        let target = sys[rng.below(sys.len())];
        let latch = Arc::new(Latch::new(target, Duration::from_secs(8)));
        ctx.arm(latch.clone());
        ctx.log.reset();
        ad.dispatch();
        if !wait_until(Instant::now() + Duration::from_secs(8), || latch.entered.load(SeqCst)) {
            latch.open.store(true, SeqCst);
            rep.inconclusive += 1;
            break;
        }
        let op = rng.below(4);
        let opname = ["setup()", "a second dispatch()", "world_mut()", "wait_without_tl()"][op];
        let about = AtomicBool::new(false);
        let r = std::thread::scope(|s| {
            s.spawn(|| {
                wait_until(Instant::now() + Duration::from_secs(8), || about.load(SeqCst));
                std::thread::sleep(Duration::from_micros(300 + 100 * (target as u64 % 5)));
                latch.open.store(true, SeqCst);
            });
            about.store(true, SeqCst);
            std::panic::catch_unwind(std::panic::AssertUnwindSafe(|| match op {
                0 => ad.setup(),
                1 => ad.dispatch(),
                2 => {
                    let _ = ad.world_mut();
                }
                _ => ad.wait_without_tl(),
            }))
        });
        history.push(format!("dispatch [u{} parked], {} while it is in flight", target, opname));
        if latch.timed_out.load(SeqCst) {
            rep.inconclusive += 1;
            break;
        }
        if let Err(p) = r {
            rep.violation("call_panicked:in_flight", &format!("{} while a dispatch was in flight panicked: {}", opname, payload_str(&*p)), case_no, J::obj().set("history", J::from(history.clone())));
            break;
        }
        let early = tl_starts(&ctx.log.since(0), &order);
        if !early.is_empty() {
            rep.violation(
                "tl_outside_wait:in_flight",
                &format!("{} - called while a dispatch was in flight - ran thread-local systems {:?} (uid, thread); they run in wait() only", opname, early),
                case_no,
                J::obj().set("history", J::from(history.clone())),
            );
            break;
        }
        ctx.log.reset();
        ad.wait();
        history.push("wait".into());
        let got = tl_starts(&ctx.log.since(0), &order);
        let want: Vec<(u32, u16)> = order.iter().map(|u| (*u, caller)).collect();
        if got != want {
            rep.violation(
                "tl_sequence:wait_after_in_flight_call",
                &format!("wait() after [{}] started the thread-local systems as {:?} (uid, thread); due: {:?} once each, in this order, on thread {}", history.join("; "), got, order, caller),
                case_no,
                J::obj().set("history", J::from(history.clone())),
            );
            break;
        }
        rep.nontrivial(mix(0x12f1, mix(op as u64, order.len() as u64 * 8 + nsys as u64)));
    }
    ctx.set_mode(Mode::Build);
    ctx.disarm();
    let _ = ctx.take_violations();
    rep.metric("async_calls_while_in_flight_cases", 1);
}

pub fn run(args: &Args, prop: &str, up: &'static str, quick: u64, thorough: u64, execute_every: u64) -> i32 {
    let mut rep = Report::new(args);
    let mut pools = Pools::new();
    if args.has("--tiny") {
        TINY.store(true, SeqCst);
    }
    let n = args.count(quick, thorough);
    let range: Vec<u64> = match args.case {
        Some(c) => vec![c],
        None => (0..n).collect(),
    };
    for c in range {
        if rep.time_up() {
            break;
        }
        let mut rng = Rng::new(args.case_seed(c));
        let execute = execute_every > 0 && (c % execute_every == 0 || tiny());
        if (prop == "c02" || prop == "c03") && c == 11 && !tiny() && args.scale >= 1.0 && args.shard < if args.thorough { 4 } else { 1 } {
            guard_case(&mut rep, c, |rep| deep_plan_case(&mut rng, up, rep, c));
            continue;
        }
        if prop == "c01" && c % 300 == 17 && !tiny() {
            guard_case(&mut rep, c, |rep| c01_same_named_types(rep, c));
            continue;
        }
        if prop == "c12" && c % 40 == 13 {
            guard_case(&mut rep, c, |rep| c12_nested_tl_dispatcher(&mut rng, &mut pools, rep, c));
            continue;
        }
        #[cfg(feature = "parallel")]
        if prop == "c12" && c % 40 == 33 && !tiny() {
            guard_case(&mut rep, c, |rep| c12_async_ops_in_flight(&mut rng, &mut pools, rep, c));
            continue;
        }
        #[cfg(feature = "parallel")]
        if prop == "c12" && c % 40 == 27 && !tiny() {
            guard_case(&mut rep, c, |rep| c12_async_wait_after_tl_panic(&mut rng, &mut pools, rep, c));
            continue;
        }
        guard_case(&mut rep, c, |rep| case(prop, up, &mut rng, &mut pools, rep, c, execute));
    }
    rep.finish();
    0
}
