//! C04 – every registered system runs exactly once per dispatch (reference count model over
//! random call sequences; structure of the recovered layout; per-dispatch log checks).

use std::sync::atomic::Ordering::SeqCst;
use std::sync::Arc;

use crate::ctx::*;
use crate::exec::*;
use crate::gen::*;
use crate::json::{hex, J};
use crate::oracle::*;
use crate::props::sched::POOL_SIZES;
use crate::report::*;
use crate::rng::{mix, Rng};

const PROFILES: [Profile; 12] = [
    Profile::SparseWide,
    Profile::Dense,
    Profile::Funnel,
    Profile::Funnel,
    Profile::DepChains,
    Profile::BarrierHeavy,
    Profile::Batchy,
    Profile::Batchy,
    Profile::Mixed,
    Profile::Tiny,
    Profile::Huge,
    Profile::WideStage,
];

const CALLS: [DMode; 7] = [DMode::Dispatch, DMode::Dispatch, DMode::Par, DMode::Seq, DMode::SeqTl, DMode::TlOnly, DMode::RunNow];

fn case(rng: &mut Rng, pools: &mut Pools, rep: &mut Report, case_no: u64) {
    let profile = *rng.pick(&PROFILES);
    let mut c = cfg_for(profile, rng);
    if profile != Profile::Huge && profile != Profile::Funnel && profile != Profile::WideStage {
        c.tl = (0, 3);
    }
    if profile == Profile::Batchy {
        c.p_batch = 45;
    }
    let plan = gen_with(rng, &c);
    let pool_size = *rng.pick(&POOL_SIZES);
    let pool = pools.get(pool_size);
    rep.evaluations += 1;
    rep.metric(&format!("profile_{}", profile.name()), 1);
    let mut inst = match build(&plan, Some(&pool), pool_size, 64) {
        Ok(i) => i,
        Err(e) => {
            if let Some(m) = e.strip_prefix("LAYOUT:") {
                rep.violation("identification", m, case_no, J::obj().set("plan", plan.to_json()));
            } else {
                rep.inconclusive += 1;
                rep.notes.push(format!("case {}: {}", case_no, e));
            }
            return;
        }
    };
    let n_uids = plan.n_uids();
    let mut findings = Vec::new();
    let mut lst = LStats::default();
    l_oracle(&plan, &inst.layout, "top", 0, inst.max_threads, &mut findings, &mut lst);
    rep.metric("systems_registered", plan.n_systems_total() as i64);
    rep.metric_max("systems_in_one_plan", plan.n_systems_total() as i64);
    rep.metric_max("stages", inst.layout.stages.len() as i64);
    rep.metric_max("group_len", inst.layout.stages.iter().flatten().map(|g| g.len()).max().unwrap_or(0) as i64);

    // ---- random call sequence against the reference count model ----
    let len = rng.range(1, 12);
    let mut expected = vec![0u32; n_uids];
    let mut seq_hash = 0xca11u64;
    let mut calls = Vec::new();
    let small = plan.n_systems_total() <= 80;
    let mut bad = false;
    let mut panics_survived = 0usize;
    for step in 0..len {
        let m = *rng.pick(&CALLS);
        // now and then one call of the sequence panics (a system fails), the caller catches it and
        // carries on: the counts of that one call are unknowable, every later call is exact again
        if small && step + 1 < len && rng.chance(1, 12) {
            let victims: Vec<u32> = {
                let mut v = Vec::new();
                plan.walk(&mut |it, d| {
                    if let crate::plan::Item::Sys(s) = it {
                        if d == 0 {
                            v.push(s.uid);
                        }
                    }
                });
                v
            };
            if !victims.is_empty() && m.runs_units() {
                let v = *rng.pick(&victims);
                inst.ctx.inject[v as usize].store(INJ_PANIC_RUN, SeqCst);
                let r = inst.run_quiet(m);
                inst.ctx.inject[v as usize].store(INJ_NONE, SeqCst);
                let _ = crate::sys::take_pool_panics();
                if r.is_some() {
                    panics_survived += 1;
                    calls.push("(call with a panicking system, caught)");
                    seq_hash = mix(seq_hash, 0xdead);
                    // re-baseline: whatever ran, ran
                    expected = inst.ctx.run_counts();
                    continue;
                }
            }
        }
        seq_hash = mix(seq_hash, m as u64);
        calls.push(m.name());
        let e1 = expected_counts(&plan, m, n_uids);
        for (a, b) in expected.iter_mut().zip(&e1) {
            *a += *b;
        }
        let monitored = small && rng.chance(1, 3);
        let escaped = if monitored {
            let out = inst.run(m, Arc::new(Jitter { seed: rng.next(), level: 0 }));
            if !out.overflow && out.panic.is_none() {
                let opts = EOpts { expect_tl: m.runs_tl(), caller_thread: out.caller, outer_mode: m.outer() , top_mult: 1, partial: false, tl_mult: None};
                if m.runs_units() {
                    let st = e_oracle(&plan, &out.events, &opts, &mut findings);
                    rep.metric("windows", st.windows as i64);
                }
                rep.metric("monitored_calls", 1);
            }
            out.panic
        } else if rng.chance(1, 12) {
            // the call is made by a cleanup guard while its thread unwinds from something else
            rep.metric("calls_made_from_a_destructor_during_unwinding", 1);
            inst.run_quiet_during_unwind(m)
        } else {
            inst.run_quiet(m)
        };
        rep.metric("calls", 1);
        if let Some(p) = escaped {
            rep.metric("other_property_findings", 1);
            rep.notes.push(format!("case {}: panic escaped {}: {}", case_no, m.name(), p));
            bad = true;
            break;
        }
        let got = inst.ctx.run_counts();
        for u in 0..n_uids {
            if got[u] != expected[u] {
                findings.push(Finding::new(
                    &["C04"],
                    if got[u] < expected[u] { "count_short" } else { "count_excess" },
                    format!("after call #{} ({}) of sequence {:?}: u{} has run {} times, the reference model says {}; layout {}", step, m.name(), calls, u, got[u], expected[u], inst.layout.brief()),
                ));
                bad = true;
                break;
            }
        }
        if bad {
            break;
        }
    }
    let _ = inst.ctx.take_violations();
    rep.metric("panicking_calls_survived", panics_survived as i64);

    // ---- sendable conversion keeps exactly-once (no thread-local systems at top level) ----
    if !bad && plan.tls().is_empty() && rng.chance(1, 3) {
        let d = inst.disp.take().unwrap();
        match d.try_into_sendable() {
            Ok(mut sd) => {
                let before = inst.ctx.run_counts();
                inst.ctx.set_mode(Mode::Quiet);
                let r = std::panic::catch_unwind(std::panic::AssertUnwindSafe(|| {
                    sd.dispatch(&inst.world);
                    sd.dispatch_seq(&inst.world);
                    shred::RunNow::run_now(&mut sd, &inst.world);
                }));
                inst.ctx.set_mode(Mode::Build);
                if r.is_ok() {
                    let e1 = expected_counts(&plan, DMode::Par, n_uids);
                    let got = inst.ctx.run_counts();
                    for u in 0..n_uids {
                        if got[u] != before[u] + 3 * e1[u] {
                            findings.push(Finding::new(&["C04"], "count_sendable", format!("SendDispatcher: u{} ran {} times in 3 calls, expected {}", u, got[u] - before[u], 3 * e1[u])));
                            break;
                        }
                    }
                    rep.metric("sendable_sequences", 1);
                }
            }
            Err(_) => findings.push(Finding::new(&["C12"], "sendable_refused", "try_into_sendable refused a dispatcher without thread-local systems".into())),
        }
    }

    let mut seen = std::collections::BTreeSet::new();
    for f in &findings {
        if f.is("C04") {
            if seen.insert(f.kind.clone()) {
                rep.violation(&f.kind, &f.msg, case_no, J::obj().set("plan", plan.to_json()).set("layout", inst.layout.to_json()).set("calls", J::from(calls.iter().map(|s| s.to_string()).collect::<Vec<_>>())));
            }
        } else {
            rep.metric("other_property_findings", 1);
        }
    }
    let nontrivial = (inst.layout.stages.len() >= 2 || !plan.batches().is_empty()) && len >= 2;
    if nontrivial {
        rep.nontrivial(mix(inst.layout.hash(), seq_hash));
    }
    rep.set_add("layouts", inst.layout.hash());
    if rep.samples.len() < rep.max_samples && nontrivial && plan.n_systems_total() < 30 {
        rep.sample(
            J::obj()
                .set("case", case_no)
                .set("plan", plan.to_json())
                .set("layout", inst.layout.to_json())
                .set("layout_hash", hex(inst.layout.hash()))
                .set("pool", pool_size)
                .set("calls", J::from(calls.iter().map(|s| s.to_string()).collect::<Vec<_>>()))
                .set("final_run_counts", J::from(inst.ctx.run_counts()[1..].to_vec())),
        );
    }
    let _ = inst.ctx.torn.load(SeqCst);
}

/// The async dispatcher under the same reference count model: every `dispatch()` request runs
/// every ordinary system exactly once (however the requests are spaced), every `wait()` runs the
/// thread-local systems exactly once.
#[cfg(feature = "parallel")]
fn case_async(rng: &mut Rng, pools: &mut Pools, rep: &mut Report, case_no: u64) {
    use crate::sys::instantiate;
    let profile = *rng.pick(&[Profile::Tiny, Profile::Dense, Profile::Mixed, Profile::Batchy, Profile::SparseWide]);
    let mut c = cfg_for(profile, rng);
    c.n = (c.n.0.min(2), c.n.1.min(14));
    c.tl = (0, 2);
    let plan = gen_with(rng, &c);
    let pool_size = *rng.pick(&POOL_SIZES);
    let pool = pools.get(pool_size);
    rep.evaluations += 1;
    rep.metric("async_sequences", 1);
    let n_uids = plan.n_uids();
    let ctx = Ctx::new(n_uids.max(1), 16);
    let b = match std::panic::catch_unwind(std::panic::AssertUnwindSafe(|| instantiate(&plan, &ctx, Some(&pool)))) {
        Ok(b) => b,
        Err(_) => {
            rep.inconclusive += 1;
            return;
        }
    };
    let mut ad = b.build_async(crate::res::full_world_with(plan.slots_used().into_iter()));
    ctx.set_mode(Mode::Quiet);
    let per = expected_counts(&plan, DMode::Par, n_uids);
    let tls: Vec<u32> = plan.tls().iter().map(|t| t.uid).collect();
    let (mut disp, mut waits) = (0u32, 0u32);
    let mut calls: Vec<String> = Vec::new();
    let len = rng.range(2, 14);
    let mut seq_hash = 0xa5u64;
    let mut failure: Option<(String, String)> = None;
    let check = |what: &str, disp: u32, waits: u32, calls: &Vec<String>| -> Option<(String, String)> {
        let got = ctx.run_counts();
        for u in 1..n_uids {
            let want = per[u] * disp + if tls.contains(&(u as u32)) { waits } else { 0 };
            if got[u] != want {
                return Some((
                    if got[u] < want { "async_count_short".into() } else { "async_count_excess".into() },
                    format!("after {} in the history {:?}: u{} has run {} times, {} dispatch requests / {} waits imply {}", what, calls, u, got[u], disp, waits, want),
                ));
            }
        }
        None
    };
    for _ in 0..len {
        let op = rng.below(8);
        seq_hash = mix(seq_hash, op as u64);
        match op {
            0..=3 => {
                ad.dispatch();
                disp += 1;
                calls.push("dispatch".into());
                // the next request lands at an arbitrary moment relative to the end of this one
                match rng.below(4) {
                    0 => {}
                    1 => std::thread::yield_now(),
                    _ => {
                        let n = rng.below(20_000);
                        for i in 0..n {
                            std::hint::black_box(i);
                        }
                    }
                }
            }
            4 => {
                ad.wait();
                waits += 1;
                calls.push("wait".into());
                failure = check("wait()", disp, waits, &calls);
            }
            5 => {
                ad.wait_without_tl();
                calls.push("wait_without_tl".into());
                failure = check("wait_without_tl()", disp, waits, &calls);
            }
            6 => {
                let _ = ad.world();
                calls.push("world".into());
                failure = check("world()", disp, waits, &calls);
            }
            _ => {
                let r = ad.running();
                calls.push(format!("running={}", r));
            }
        }
        if failure.is_some() {
            break;
        }
    }
    if failure.is_none() {
        ad.wait_without_tl();
        failure = check("the final wait_without_tl()", disp, waits, &calls);
    }
    // the handle goes away while a dispatch is in flight: the request was made, it is carried out
    if failure.is_none() && rng.chance(1, 3) {
        ad.dispatch();
        disp += 1;
        calls.push("dispatch, then the dispatcher is dropped at once".into());
        drop(ad);
        let done = wait_until(std::time::Instant::now() + std::time::Duration::from_secs(8), || check("", disp, waits, &calls).is_none());
        if !done {
            failure = check("dropping the dispatcher right after dispatch() (8 s later)", disp, waits, &calls);
        }
        rep.metric("handles_dropped_in_flight", 1);
    }
    ctx.set_mode(Mode::Build);
    let _ = ctx.take_violations();
    if let Some((k, m)) = failure {
        rep.violation(&k, &m, case_no, J::obj().set("plan", plan.to_json()).set("pool", pool_size).set("history", J::from(calls.clone())));
        return;
    }
    if disp >= 2 {
        rep.nontrivial(mix(plan.hash(), seq_hash));
    }
}

/// A `MultiDispatcher` whose `plan()` asks for a number of inner dispatches at a counter-width
/// boundary: the systems of the batch run exactly that many times per controller run.
fn case_many_rounds(rng: &mut Rng, pools: &mut Pools, rep: &mut Report, case_no: u64) {
    use crate::plan::*;
    use crate::res::Slot;
    let k = *rng.pick(&[255u32, 256, 257, 65_535, 65_536, 65_536, 65_537]);
    let sl = |rng: &mut Rng| Slot::new(rng.below(crate::res::NTYPES), rng.below(crate::res::NDYN));
    let n_inner = rng.range(1, 2);
    let mut uid = 1u32;
    let mut next = || {
        uid += 1;
        uid - 1
    };
    let mut items = Vec::new();
    if rng.chance(1, 2) {
        let u = next();
        items.push(Item::Sys(SysSpec { uid: u, name: format!("s{}", u), deps: vec![], reads: vec![sl(rng)], writes: vec![], time: 3, kind: Kind::Dyn }));
    }
    let bu = next();
    let inner = Plan {
        items: (0..n_inner)
            .map(|_| {
                let u = next();
                Item::Sys(SysSpec { uid: u, name: format!("s{}", u), deps: vec![], reads: vec![], writes: vec![sl(rng)], time: 3, kind: Kind::Dyn })
            })
            .collect(),
    };
    items.push(Item::Batch(BatchSpec { uid: bu, name: format!("s{}", bu), deps: vec![], ctl_menu: 0, k, multi: true, time: 3, inner }));
    if rng.chance(1, 2) {
        let u = next();
        items.push(Item::Sys(SysSpec { uid: u, name: String::new(), deps: vec![], reads: vec![], writes: vec![sl(rng)], time: 2, kind: Kind::Dyn }));
    }
    let plan = Plan { items };
    let pool_size = rng.range(1, 4);
    let pool = pools.get(pool_size);
    let mut inst = match build(&plan, Some(&pool), pool_size, 64) {
        Ok(i) => i,
        Err(e) => {
            rep.inconclusive += 1;
            rep.notes.push(format!("case {}: {}", case_no, e));
            return;
        }
    };
    rep.evaluations += 1;
    rep.metric("many_round_batches", 1);
    rep.metric_max("inner_dispatches_per_controller_run", k as i64);
    let n_uids = plan.n_uids();
    let mut expected = vec![0u32; n_uids];
    for _ in 0..rng.range(1, 2) {
        let m = *rng.pick(&[DMode::Dispatch, DMode::Par, DMode::Seq, DMode::RunNow]);
        for (a, b) in expected.iter_mut().zip(&expected_counts(&plan, m, n_uids)) {
            *a += *b;
        }
        if let Some(p) = inst.run_quiet(m) {
            rep.violation("call_panicked", &format!("{} of a plan with a MultiDispatcher batch of {} rounds panicked: {}", m.name(), k, p), case_no, J::obj().set("plan", plan.to_json()));
            return;
        }
        let got = inst.ctx.run_counts();
        if let Some(u) = (0..n_uids).find(|&u| got[u] != expected[u]) {
            rep.violation(
                "count_mismatch:many_rounds",
                &format!("MultiDispatcher batch whose plan() asks for {} rounds: after {} system u{} has run {} times, the count model says {}", k, m.name(), u, got[u], expected[u]),
                case_no,
                J::obj().set("plan", plan.to_json()).set("pool", pool_size),
            );
            return;
        }
    }
    rep.nontrivial(mix(plan.hash(), k as u64));
}

/// One dispatcher, more than 2^16 calls in a row, the count model after every call.
fn case_soak(rng: &mut Rng, pools: &mut Pools, rep: &mut Report, case_no: u64) {
    let mut c = cfg_for(if rng.chance(1, 3) { Profile::Batchy } else { Profile::Tiny }, rng);
    c.n = (2, 5);
    c.tl = (0, 2);
    c.max_batches = 1;
    c.depth_left = c.depth_left.min(1);
    let plan = gen_with(rng, &c);
    let pool_size = rng.range(1, 4);
    let pool = pools.get(pool_size);
    let mut inst = match build(&plan, Some(&pool), pool_size, 64) {
        Ok(i) => i,
        Err(_) => {
            rep.inconclusive += 1;
            return;
        }
    };
    rep.evaluations += 1;
    let m = *rng.pick(&[DMode::Dispatch, DMode::Par, DMode::Seq, DMode::RunNow, DMode::SeqTl]);
    let n = 65_536 + rng.range(2, 40);
    rep.metric("soak_histories", 1);
    match soak(&mut inst, m, n) {
        Some((i, msg)) => rep.violation("count_mismatch:long_history", &msg, case_no, J::obj().set("plan", plan.to_json()).set("pool", pool_size).set("calls", i + 1)),
        None => {
            rep.metric("soak_dispatches", n as i64);
            rep.nontrivial(mix(plan.hash(), 0x50a6 + n as u64));
        }
    }
}

pub fn run(args: &Args) -> i32 {
    let mut rep = Report::new(args);
    let mut pools = Pools::new();
    let n = args.count(16_000, 240_000);
    let range: Vec<u64> = match args.case {
        Some(c) => vec![c],
        None => (0..n).collect(),
    };
    for c in range {
        if rep.time_up() {
            break;
        }
        let mut rng = Rng::new(args.case_seed(c));
        #[cfg(feature = "parallel")]
        if c % 5 == 4 {
            guard_case(&mut rep, c, |rep| case_async(&mut rng, &mut pools, rep, c));
            continue;
        }
        if c % 500 == 7 {
            guard_case(&mut rep, c, |rep| case_soak(&mut rng, &mut pools, rep, c));
            continue;
        }
        if c % 250 == 8 {
            guard_case(&mut rep, c, |rep| case_many_rounds(&mut rng, &mut pools, rep, c));
            continue;
        }
        guard_case(&mut rep, c, |rep| case(&mut rng, &mut pools, rep, c));
    }
    rep.finish();
    0
}
