//! C08 – world borrows: shared xor exclusive, violations panic, drops release.
//! Single thread: exact borrow-state reference model over random histories of every fetch path.
//! Many threads: shadow-state + canary oracle (updates strictly inside guard lifetimes).

use std::panic::{catch_unwind, AssertUnwindSafe};
use std::sync::atomic::{AtomicBool, AtomicI64, AtomicU64, Ordering::SeqCst};

use shred::cell::{AtomicRef, AtomicRefMut};
use shred::{Fetch, MetaTable, World};

use crate::ctx::*;
use crate::json::J;
use crate::report::*;
use crate::res::*;
use crate::rng::{mix, Rng};
use crate::sys::*;

/// Trait used for the meta-table part: every payload type implements it.
pub trait Obj {
    fn a(&self) -> u64;
    fn set_all(&mut self, x: u64);
}
macro_rules! impl_obj {
    ($($t:ident),*) => {$(
        impl Obj for $t {
            fn a(&self) -> u64 { Pay::a(self) }
            fn set_all(&mut self, x: u64) { Pay::set(self, x, 0) }
        }
        unsafe impl shred::CastFrom<$t> for dyn Obj {
            fn cast(t: *mut $t) -> *mut Self { t }
        }
    )*};
}
impl_obj!(R0, R1, R2, R3, R4, R5, R6, R7);

fn meta_table() -> MetaTable<dyn Obj> {
    let mut m = MetaTable::<dyn Obj>::new();
    m.register::<R0>();
    m.register::<R1>();
    m.register::<R2>();
    m.register::<R3>();
    m.register::<R4>();
    m.register::<R5>();
    m.register::<R6>();
    m.register::<R7>();
    m
}

/// Anything that only has to be kept alive.
pub trait Keep {}
impl<T> Keep for T {}

/// A live guard (or a unit of guards) and what it holds in the model.
enum Live<'a> {
    R(Slot, RGuard<'a>),
    W(Slot, WGuard<'a>),
    /// a static system-data value: (shared slots, exclusive slots) that are really held
    Data(Vec<Slot>, Vec<Slot>, Box<dyn Keep + 'a>),
    MetaR(Slot, AtomicRef<'a, dyn Obj + 'static>),
    MetaW(Slot, AtomicRefMut<'a, dyn Obj + 'static>),
}

#[derive(Clone, Copy, PartialEq, Eq, Debug)]
enum St {
    Absent,
    Free,
    Shared(u32),
    Excl,
}

struct Model {
    st: [St; NSLOTS],
    val: [u64; NSLOTS],
}

impl Model {
    fn can_shared(&self, s: Slot) -> bool {
        matches!(self.st[s.0 as usize], St::Free | St::Shared(_))
    }
    fn can_excl(&self, s: Slot) -> bool {
        self.st[s.0 as usize] == St::Free
    }
    fn take_shared(&mut self, s: Slot) {
        self.st[s.0 as usize] = match self.st[s.0 as usize] {
            St::Free => St::Shared(1),
            St::Shared(n) => St::Shared(n + 1),
            x => x,
        }
    }
    fn take_excl(&mut self, s: Slot) {
        self.st[s.0 as usize] = St::Excl;
    }
    fn rel_shared(&mut self, s: Slot) {
        self.st[s.0 as usize] = match self.st[s.0 as usize] {
            St::Shared(1) => St::Free,
            St::Shared(n) => St::Shared(n - 1),
            x => x,
        }
    }
    fn rel_excl(&mut self, s: Slot) {
        self.st[s.0 as usize] = St::Free;
    }
    fn probe(&self, s: Slot) -> Probe {
        match self.st[s.0 as usize] {
            St::Absent => Probe::Absent,
            St::Free => Probe::Free,
            St::Shared(_) => Probe::Shared,
            St::Excl => Probe::Excl,
        }
    }
}

#[derive(Debug, PartialEq, Clone)]
enum Want {
    Guard,
    None,
    Panic(PanicKind),
}

/// Member kinds of the static menu for expectation purposes: (slot, exclusive, optional)
fn menu_members(id: u8) -> Vec<(Slot, bool, bool)> {
    let s = |t: usize| Slot::new(t, 0);
    match id {
        0 => vec![],
        1 => vec![(s(0), false, false)],
        2 => vec![(s(1), true, false)],
        3 => vec![(s(0), false, false), (s(2), true, false)],
        4 => vec![(s(3), false, false), (s(1), true, false)],
        5 => vec![(s(4), false, true), (s(5), true, true)],
        6 => vec![(s(2), false, false), (s(6), true, false)],
        7 => vec![(s(0), false, false), (s(1), false, false), (s(7), true, false)],
        8 => vec![(s(0), true, false)],
        9 => vec![(s(3), true, false), (s(4), true, false)],
        10 => vec![(s(5), false, false), (s(6), false, false), (s(7), false, false)],
        11 => vec![(s(2), true, false), (s(3), false, true)],
        12 => vec![(s(7), false, false)],
        13 => vec![(s(5), true, false), (s(1), false, false)],
        14 => vec![(s(4), true, false), (s(0), false, false)],
        15 => vec![(s(2), false, false), (s(7), false, true)],
        16 => vec![(s(6), false, false), (s(7), false, true)],
        _ => panic!("menu"),
    }
}

fn release(m: &mut Model, l: &Live<'_>) {
    match l {
        Live::R(s, _) | Live::MetaR(s, _) => m.rel_shared(*s),
        Live::W(s, _) | Live::MetaW(s, _) => m.rel_excl(*s),
        Live::Data(r, w, _) => {
            for s in r {
                m.rel_shared(*s);
            }
            for s in w {
                m.rel_excl(*s);
            }
        }
    }
}

fn single_history(rng: &mut Rng, rep: &mut Report, case_no: u64, len: usize) {
    rep.evaluations += 1;
    // world: a few hot slots, some absent
    let mut world = World::empty();
    let mut model = Model { st: [St::Absent; NSLOTS], val: [0; NSLOTS] };
    let hot: Vec<Slot> = {
        let mut v: Vec<Slot> = Slot::all().collect();
        rng.shuffle(&mut v);
        // keep the static (dyn 0) slots interesting too
        v.truncate(rng.range(3, 10));
        for t in 0..NTYPES {
            if rng.chance(1, 2) {
                v.push(Slot::new(t, 0));
            }
        }
        v.sort();
        v.dedup();
        v
    };
    for s in &hot {
        if rng.chance(4, 5) {
            let x = 500 + s.0 as u64;
            insert_slot(&mut world, *s, x);
            model.st[s.0 as usize] = St::Free;
            model.val[s.0 as usize] = x;
        }
    }
    let table = meta_table();
    let world = &world;
    let mut live: Vec<Live<'_>> = Vec::new();
    let mut log: Vec<String> = Vec::new();
    let (mut refused, mut granted_s, mut granted_x) = (0u32, 0u32, 0u32);
    let mut failure: Option<(String, String)> = None;
    let mut hh = 0x08u64;

    for _step in 0..len {
        let s = *rng.pick(&hot);
        let i = s.0 as usize;
        let op = rng.below(18);
        let desc;
        let mut outcome: Option<(Want, Want, String)> = None; // (got, want, message if panic)
        macro_rules! attempt {
            ($want:expr, $body:expr, $g:pat => $on_ok:block) => {{
                let want: Want = $want;
                match catch_unwind(AssertUnwindSafe(|| $body)) {
                    Ok(Some($g)) => {
                        outcome = Some((Want::Guard, want, String::new()));
                        $on_ok
                    }
                    Ok(None) => outcome = Some((Want::None, want, String::new())),
                    Err(p) => {
                        let msg = payload_str(&*p);
                        outcome = Some((Want::Panic(classify(&msg)), want, msg));
                    }
                }
            }};
        }
        let absent = model.st[i] == St::Absent;
        match op {
            0 | 1 => {
                // try_fetch_by_id (any dyn id)
                desc = format!("try_fetch_by_id({})", s.label());
                let want = if absent { Want::None } else if model.can_shared(s) { Want::Guard } else { Want::Panic(PanicKind::BorrowConflict) };
                attempt!(want, fetch_r(world, s), g => {
                    model.take_shared(s);
                    live.push(Live::R(s, g));
                });
            }
            2 | 3 => {
                desc = format!("try_fetch_mut_by_id({})", s.label());
                let want = if absent { Want::None } else if model.can_excl(s) { Want::Guard } else { Want::Panic(PanicKind::BorrowConflict) };
                attempt!(want, fetch_w(world, s), g => {
                    model.take_excl(s);
                    live.push(Live::W(s, g));
                });
            }
            4..=7 if s.dy() == 0 => {
                // the typed (dyn 0) paths: fetch / try_fetch / fetch_mut / try_fetch_mut
                let excl = op >= 6;
                let trying = op % 2 == 1;
                desc = format!("{}{}::<R{}>()", if trying { "try_fetch" } else { "fetch" }, if excl { "_mut" } else { "" }, s.ty());
                let want = if absent {
                    if trying {
                        Want::None
                    } else {
                        Want::Panic(PanicKind::MissingResource)
                    }
                } else if (excl && model.can_excl(s)) || (!excl && model.can_shared(s)) {
                    Want::Guard
                } else {
                    Want::Panic(PanicKind::BorrowConflict)
                };
                if excl {
                    attempt!(
                        want,
                        with_ty!(s.ty(), T => if trying { world.try_fetch_mut::<T>().map(WGuard::from) } else { Some(WGuard::from(world.fetch_mut::<T>())) }),
                        g => {
                            model.take_excl(s);
                            live.push(Live::W(s, g));
                        }
                    );
                } else {
                    attempt!(
                        want,
                        with_ty!(s.ty(), T => if trying { world.try_fetch::<T>().map(RGuard::from) } else { Some(RGuard::from(world.fetch::<T>())) }),
                        g => {
                            model.take_shared(s);
                            live.push(Live::R(s, g));
                        }
                    );
                }
            }
            8 => {
                // system_data of a library type: members are fetched in order; the first failing
                // member decides, everything fetched before it is released by unwinding
                let m = rng.below(N_MENU as usize) as u8;
                desc = format!("system_data::<menu {}>()", m);
                let mut want = Want::Guard;
                let mut tmp = Model { st: model.st, val: model.val };
                let (mut rs, mut ws) = (Vec::new(), Vec::new());
                for (sl, excl, opt) in menu_members(m) {
                    let ab = tmp.st[sl.0 as usize] == St::Absent;
                    if ab {
                        if opt {
                            continue;
                        }
                        want = Want::Panic(PanicKind::MissingResource);
                        break;
                    }
                    if excl {
                        if !tmp.can_excl(sl) {
                            want = Want::Panic(PanicKind::BorrowConflict);
                            break;
                        }
                        tmp.take_excl(sl);
                        ws.push(sl);
                    } else {
                        if !tmp.can_shared(sl) {
                            want = Want::Panic(PanicKind::BorrowConflict);
                            break;
                        }
                        tmp.take_shared(sl);
                        rs.push(sl);
                    }
                }
                attempt!(
                    want,
                    with_menu!(m, M => Some(Box::new(world.system_data::<<M as Menu>::Data<'_>>()) as Box<dyn Keep + '_>)),
                    g => {
                        model.st = tmp.st;
                        live.push(Live::Data(rs.clone(), ws.clone(), g));
                    }
                );
            }
            9 => {
                // clone of a live shared guard
                let idx: Vec<usize> = live.iter().enumerate().filter(|(_, l)| matches!(l, Live::R(..))).map(|(i, _)| i).collect();
                if idx.is_empty() {
                    continue;
                }
                let k = *rng.pick(&idx);
                let (sl, cl) = match &live[k] {
                    Live::R(sl, g) => (
                        *sl,
                        match g {
                            RGuard::G0(f) => RGuard::G0(Fetch::clone(f)),
                            RGuard::G1(f) => RGuard::G1(Fetch::clone(f)),
                            RGuard::G2(f) => RGuard::G2(Fetch::clone(f)),
                            RGuard::G3(f) => RGuard::G3(Fetch::clone(f)),
                            RGuard::G4(f) => RGuard::G4(Fetch::clone(f)),
                            RGuard::G5(f) => RGuard::G5(Fetch::clone(f)),
                            RGuard::G6(f) => RGuard::G6(Fetch::clone(f)),
                            RGuard::G7(f) => RGuard::G7(Fetch::clone(f)),
                        },
                    ),
                    _ => unreachable!(),
                };
                desc = format!("Fetch::clone({})", sl.label());
                model.take_shared(sl);
                live.push(Live::R(sl, cl));
                outcome = Some((Want::Guard, Want::Guard, String::new()));
            }
            10 | 11 => {
                // drop a random live guard
                if live.is_empty() {
                    continue;
                }
                let k = rng.below(live.len());
                let l = live.swap_remove(k);
                desc = "drop(guard)".to_string();
                release(&mut model, &l);
                drop(l);
                outcome = Some((Want::None, Want::None, String::new()));
            }
            12 => {
                // meta-table iteration (shared): walk up to n items, keep them alive
                let n = rng.range(1, 8);
                desc = format!("MetaTable::iter().take({})", n);
                // expectation: registration order = R0..R7, present ones under dyn 0
                let mut tmp = Model { st: model.st, val: model.val };
                let mut want = Want::Guard;
                let mut got_slots = Vec::new();
                for t in 0..NTYPES {
                    if got_slots.len() == n {
                        break;
                    }
                    let sl = Slot::new(t, 0);
                    if tmp.st[sl.0 as usize] == St::Absent {
                        continue;
                    }
                    if !tmp.can_shared(sl) {
                        want = Want::Panic(PanicKind::BorrowConflict);
                        break;
                    }
                    tmp.take_shared(sl);
                    got_slots.push(sl);
                }
                let mut items: Vec<AtomicRef<'_, dyn Obj + 'static>> = Vec::new();
                let r = catch_unwind(AssertUnwindSafe(|| {
                    let mut it = table.iter(world);
                    for _ in 0..n {
                        match it.next() {
                            Some(x) => items.push(x),
                            None => break,
                        }
                    }
                }));
                match r {
                    Ok(()) => {
                        outcome = Some((Want::Guard, want.clone(), String::new()));
                        if want == Want::Guard {
                            let vals: Vec<u64> = items.iter().map(|x| x.a()).collect();
                            let wantv: Vec<u64> = got_slots.iter().map(|s| model.val[s.0 as usize]).collect();
                            if vals != wantv {
                                failure = Some(("meta_iter_values".into(), format!("MetaTable::iter yielded values {:?}, the model says {:?} (slots {:?})", vals, wantv, got_slots.iter().map(|s| s.label()).collect::<Vec<_>>())));
                            }
                            model.st = tmp.st;
                            for (sl, it) in got_slots.iter().zip(items.drain(..)) {
                                live.push(Live::MetaR(*sl, it));
                            }
                        }
                    }
                    Err(p) => {
                        let msg = payload_str(&*p);
                        outcome = Some((Want::Panic(classify(&msg)), want, msg));
                        // items obtained before the refused one are dropped here: model unchanged
                        items.clear();
                    }
                }
            }
            13 => {
                // meta-table iteration (exclusive): first item only
                desc = "MetaTable::iter_mut().next()".to_string();
                let first = (0..NTYPES).map(|t| Slot::new(t, 0)).find(|sl| model.st[sl.0 as usize] != St::Absent);
                let want = match first {
                    None => Want::None,
                    Some(sl) => {
                        if model.can_excl(sl) {
                            Want::Guard
                        } else {
                            Want::Panic(PanicKind::BorrowConflict)
                        }
                    }
                };
                attempt!(want, table.iter_mut(world).next(), mut g => {
                    let sl = first.unwrap();
                    let nv = model.val[sl.0 as usize] + 1000;
                    g.set_all(nv);
                    model.val[sl.0 as usize] = nv;
                    model.take_excl(sl);
                    live.push(Live::MetaW(sl, g));
                });
            }
            14 => {
                // scoped unwind: acquire what can be acquired, then panic; everything is released
                desc = "scoped unwind through guards".to_string();
                let before = model.st;
                let picks: Vec<(Slot, bool)> = (0..rng.range(1, 4)).map(|_| (*rng.pick(&hot), rng.chance(1, 2))).collect();
                let plan: Vec<(Slot, bool)> = {
                    let mut tmp = Model { st: model.st, val: model.val };
                    picks
                        .into_iter()
                        .filter(|(sl, ex)| {
                            let ok = tmp.st[sl.0 as usize] != St::Absent && if *ex { tmp.can_excl(*sl) } else { tmp.can_shared(*sl) };
                            if ok {
                                if *ex {
                                    tmp.take_excl(*sl)
                                } else {
                                    tmp.take_shared(*sl)
                                }
                            }
                            ok
                        })
                        .collect()
                };
                let r = catch_unwind(AssertUnwindSafe(|| {
                    let mut held: Vec<Live<'_>> = Vec::new();
                    for (sl, ex) in &plan {
                        if *ex {
                            held.push(Live::W(*sl, fetch_w(world, *sl).unwrap()));
                        } else {
                            held.push(Live::R(*sl, fetch_r(world, *sl).unwrap()));
                        }
                    }
                    std::panic::panic_any("INJECTED-PANIC scoped".to_string());
                }));
                let _ = r;
                model.st = before;
                outcome = Some((Want::None, Want::None, String::new()));
            }
            15 | 16 => {
                // a fetch made from a destructor that runs while the thread is unwinding from an
                // unrelated panic: same rules as anywhere else (the destructor catches the outcome)
                let excl = op == 16;
                let typed = s.dy() == 0 && rng.chance(1, 2);
                desc = format!("{}({}) from a destructor during unwinding", match (typed, excl) { (true, true) => "try_fetch_mut", (true, false) => "try_fetch", (false, true) => "try_fetch_mut_by_id", (false, false) => "try_fetch_by_id" }, s.label());
                let want = if absent {
                    Want::None
                } else if (excl && model.can_excl(s)) || (!excl && model.can_shared(s)) {
                    Want::Guard
                } else {
                    Want::Panic(PanicKind::BorrowConflict)
                };
                struct OnUnwind<F: FnMut()>(F);
                impl<F: FnMut()> Drop for OnUnwind<F> {
                    fn drop(&mut self) {
                        (self.0)()
                    }
                }
                let got: std::cell::RefCell<Option<(Want, String)>> = std::cell::RefCell::new(None);
                let r = catch_unwind(AssertUnwindSafe(|| {
                    let _probe = OnUnwind(|| {
                        let o = catch_unwind(AssertUnwindSafe(|| -> Option<()> {
                            match (typed, excl) {
                                (true, true) => with_ty!(s.ty(), T => world.try_fetch_mut::<T>().map(|_| ())),
                                (true, false) => with_ty!(s.ty(), T => world.try_fetch::<T>().map(|_| ())),
                                (false, true) => fetch_w(world, s).map(|_| ()),
                                (false, false) => fetch_r(world, s).map(|_| ()),
                            }
                        }));
                        *got.borrow_mut() = Some(match o {
                            Ok(Some(())) => (Want::Guard, String::new()),
                            Ok(None) => (Want::None, String::new()),
                            Err(p) => {
                                let msg = payload_str(&*p);
                                (Want::Panic(classify(&msg)), msg)
                            }
                        });
                    });
                    std::panic::panic_any("INJECTED-PANIC scoped (a destructor fetches on the way out)".to_string());
                }));
                let _ = r;
                match got.into_inner() {
                    Some((g, msg)) => outcome = Some((g, want, msg)),
                    None => failure = Some(("harness".into(), "the destructor did not run".into())),
                }
            }
            _ => {
                // use a live exclusive guard: write through it; use shared guards: read
                let mut did = false;
                for l in live.iter_mut() {
                    if let Live::W(sl, g) = l {
                        let nv = model.val[sl.0 as usize] + 1;
                        g.pay_mut().set(nv, 0);
                        model.val[sl.0 as usize] = nv;
                        did = true;
                        break;
                    }
                }
                desc = format!("write through a live exclusive guard ({})", did);
                outcome = Some((Want::None, Want::None, String::new()));
            }
        }
        log.push(desc.clone());
        if log.len() > 40 {
            log.remove(0);
        }
        hh = mix(hh, crate::rng::hash_str(&desc));
        if let Some((got, want, msg)) = outcome {
            match (&got, &want) {
                (Want::Guard, Want::Guard) => {
                    if desc.contains("mut") {
                        granted_x += 1
                    } else {
                        granted_s += 1
                    }
                }
                (Want::Panic(PanicKind::BorrowConflict), Want::Panic(PanicKind::BorrowConflict)) => refused += 1,
                _ => {}
            }
            // the statement asks for *a* panic: which message it carries is not part of the property
            let same = got == want || matches!((&got, &want), (Want::Panic(_), Want::Panic(_)));
            if !same && failure.is_none() {
                let kind = match (&got, &want) {
                    (Want::Guard, Want::Panic(PanicKind::BorrowConflict)) => "aliasing_guard_returned",
                    (Want::None, Want::Panic(PanicKind::BorrowConflict)) => "conflict_swallowed_into_none",
                    (Want::Panic(_), Want::Guard) => "legal_fetch_refused",
                    (Want::Panic(_), Want::None) => "absent_resource_panicked",
                    (Want::None, Want::Guard) => "present_resource_reported_absent",
                    _ => "outcome_differs",
                };
                failure = Some((kind.into(), format!("{}: outcome {:?} {}, the borrow model expects {:?} (slot state {:?})", desc, got, msg, want, model.st[i])));
            }
        }
        if failure.is_some() {
            break;
        }
        // every live guard still reads its model value
        for l in &live {
            let (sl, a) = match l {
                Live::R(sl, g) => (*sl, g.pay().a()),
                Live::W(sl, g) => (*sl, g.pay().a()),
                Live::MetaR(sl, g) => (*sl, g.a()),
                Live::MetaW(sl, g) => (*sl, g.a()),
                Live::Data(..) => continue,
            };
            if a != model.val[sl.0 as usize] {
                failure = Some(("live_guard_damaged".into(), format!("after `{}` a live guard on {} reads {:x}, the model value is {:x}", desc, sl.label(), a, model.val[sl.0 as usize])));
                break;
            }
        }
        // the real cell states equal the model
        for s in Slot::all() {
            let p = probe(world, s);
            if p != model.probe(s) {
                failure = Some(("cell_state_differs".into(), format!("after `{}` the cell of {} probes as {:?}, the model says {:?}", desc, s.label(), p, model.probe(s))));
                break;
            }
        }
        if failure.is_some() {
            break;
        }
    }
    // drop everything: all free again
    if failure.is_none() {
        while let Some(l) = live.pop() {
            release(&mut model, &l);
            drop(l);
        }
        for s in Slot::all() {
            let p = probe(world, s);
            if p != Probe::Free && p != Probe::Absent {
                failure = Some(("not_released".into(), format!("after dropping every guard {} still probes as {:?}", s.label(), p)));
            }
        }
    }
    drop(live);
    rep.metric("ops", len as i64);
    rep.metric("refused_borrows", refused as i64);
    rep.metric("granted_shared", granted_s as i64);
    rep.metric("granted_exclusive", granted_x as i64);
    if let Some((k, m)) = failure {
        rep.violation(&k, &m, case_no, J::obj().set("last_ops", J::from(log.clone())));
        return;
    }
    if refused > 0 && granted_s > 0 && granted_x > 0 {
        rep.nontrivial(hh);
    }
    if rep.samples.len() < rep.max_samples && refused > 0 && granted_s > 0 && granted_x > 0 {
        rep.sample(J::obj().set("case", case_no).set("kind", "single-thread history").set("history_tail", J::from(log.clone())).set("refused", refused).set("granted_shared", granted_s).set("granted_exclusive", granted_x));
    }
}

#[cfg(not(feature = "parallel"))]
fn stress(_rng: &mut Rng, _rep: &mut Report, _case_no: u64, _nthreads: usize, _ops: u64) {
    // without the `parallel` feature a World is not Sync: there is no multi-threaded use to test
}

/// Many threads on few slots. The shadow value changes strictly inside guard lifetimes, so an
/// observed conflict implies two incompatible live guards.
#[cfg(feature = "parallel")]
fn stress(rng: &mut Rng, rep: &mut Report, case_no: u64, nthreads: usize, ops_per_thread: u64) {
    rep.evaluations += 1;
    let mut world = World::empty();
    let nslots = rng.range(2, 4);
    let slots: Vec<Slot> = (0..nslots).map(|i| Slot::new(i * 2 % NTYPES, if rng.chance(1, 2) { 0 } else { rng.below(NDYN) })).collect();
    for s in &slots {
        insert_slot(&mut world, *s, 1);
    }
    let shadow: Vec<AtomicI64> = slots.iter().map(|_| AtomicI64::new(0)).collect();
    let problems = std::sync::Mutex::new(Vec::<(String, String)>::new());
    let stop = AtomicBool::new(false);
    let refused = AtomicU64::new(0);
    let granted_s = AtomicU64::new(0);
    let granted_x = AtomicU64::new(0);
    let max_shared = AtomicI64::new(0);
    let seed = rng.next();
    let world = &world;
    std::thread::scope(|sc| {
        for t in 0..nthreads {
            let (slots, shadow, problems, stop, refused, granted_s, granted_x, max_shared) = (&slots, &shadow, &problems, &stop, &refused, &granted_s, &granted_x, &max_shared);
            sc.spawn(move || {
                let mut rng = Rng::new(mix(seed, t as u64));
                for _ in 0..ops_per_thread {
                    if stop.load(SeqCst) {
                        break;
                    }
                    let k = rng.below(slots.len());
                    let s = slots[k];
                    let excl = rng.chance(2, 5);
                    let typed = s.dy() == 0 && rng.chance(1, 2);
                    let hold = rng.below(200) as u32;
                    let r = catch_unwind(AssertUnwindSafe(|| {
                        if excl {
                            let g = if typed { with_ty!(s.ty(), T => world.try_fetch_mut::<T>().map(WGuard::from)) } else { fetch_w(world, s) };
                            let mut g = g.expect("present");
                            let seen = shadow[k].compare_exchange(0, -1, SeqCst, SeqCst);
                            if let Err(x) = seen {
                                problems.lock().unwrap().push(("exclusive_guard_not_alone".into(), format!("thread {} obtained an exclusive guard on {} while the shadow state says {} (>0: live shared guards, -1: another exclusive guard)", t, s.label(), x)));
                                stop.store(true, SeqCst);
                                return 1;
                            }
                            let p = g.pay_mut();
                            if p.a() != p.b() {
                                problems.lock().unwrap().push(("torn_under_exclusive".into(), format!("{}: a != b under an exclusive guard", s.label())));
                                stop.store(true, SeqCst);
                            }
                            let nv = p.a().wrapping_add(1);
                            p.set(nv, hold);
                            shadow[k].store(0, SeqCst);
                            drop(g);
                            1
                        } else {
                            let g = if typed { with_ty!(s.ty(), T => world.try_fetch::<T>().map(RGuard::from)) } else { fetch_r(world, s) };
                            let g = g.expect("present");
                            let prev = shadow[k].fetch_add(1, SeqCst);
                            if prev < 0 {
                                problems.lock().unwrap().push(("shared_guard_beside_exclusive".into(), format!("thread {} obtained a shared guard on {} while an exclusive guard is live", t, s.label())));
                                stop.store(true, SeqCst);
                                shadow[k].fetch_sub(1, SeqCst);
                                return 0;
                            }
                            max_shared.fetch_max(prev + 1, SeqCst);
                            for _ in 0..2 {
                                let p = g.pay();
                                if p.a() != p.b() {
                                    problems.lock().unwrap().push(("torn_under_shared".into(), format!("{}: a != b seen under a shared guard", s.label())));
                                    stop.store(true, SeqCst);
                                }
                                for i in 0..hold {
                                    std::hint::black_box(i);
                                }
                            }
                            shadow[k].fetch_sub(1, SeqCst);
                            drop(g);
                            0
                        }
                    }));
                    match r {
                        Ok(1) => {
                            granted_x.fetch_add(1, SeqCst);
                        }
                        Ok(_) => {
                            granted_s.fetch_add(1, SeqCst);
                        }
                        Err(p) => {
                            let msg = payload_str(&*p);
                            if classify(&msg) == PanicKind::BorrowConflict {
                                refused.fetch_add(1, SeqCst);
                            } else {
                                problems.lock().unwrap().push(("unexpected_panic".into(), format!("thread {}: {}", t, msg)));
                                stop.store(true, SeqCst);
                            }
                        }
                    }
                }
            });
        }
    });
    let _ = take_panics();
    let mut problems = problems.into_inner().unwrap();
    // quiescent end
    for (k, s) in slots.iter().enumerate() {
        if shadow[k].load(SeqCst) != 0 && problems.is_empty() {
            problems.push(("shadow_not_zero".into(), format!("harness: shadow of {} is {}", s.label(), shadow[k].load(SeqCst))));
        }
        let p = probe(world, *s);
        if p != Probe::Free {
            problems.push(("not_released".into(), format!("after all threads finished {} probes as {:?}", s.label(), p)));
        }
        if let Some((a, b, _, _)) = slot_value(world, *s) {
            if a != b {
                problems.push(("torn_final".into(), format!("{} ends with a != b", s.label())));
            }
        }
    }
    rep.metric("stress_ops", (nthreads as u64 * ops_per_thread) as i64);
    rep.metric("stress_refused", refused.load(SeqCst) as i64);
    rep.metric("stress_granted_shared", granted_s.load(SeqCst) as i64);
    rep.metric("stress_granted_exclusive", granted_x.load(SeqCst) as i64);
    rep.metric_max("concurrent_shared_guards", max_shared.load(SeqCst));
    if let Some((k, m)) = problems.first() {
        rep.violation(k, m, case_no, J::obj().set("threads", nthreads).set("slots", J::from(slots.iter().map(|s| s.label()).collect::<Vec<_>>())));
        return;
    }
    if refused.load(SeqCst) > 0 && granted_s.load(SeqCst) > 0 && granted_x.load(SeqCst) > 0 {
        rep.nontrivial(mix(seed, nthreads as u64));
    }
    if rep.samples.len() < rep.max_samples + 1 {
        rep.samples.push(
            J::obj()
                .set("case", case_no)
                .set("kind", "multi-thread stress")
                .set("threads", nthreads)
                .set("slots", J::from(slots.iter().map(|s| s.label()).collect::<Vec<_>>()))
                .set("refused", refused.load(SeqCst))
                .set("granted_shared", granted_s.load(SeqCst))
                .set("granted_exclusive", granted_x.load(SeqCst))
                .set("max_concurrent_shared", max_shared.load(SeqCst)),
        );
    }
}

#[cfg(not(feature = "parallel"))]
fn upgrade_race(_rng: &mut Rng, _rep: &mut Report, _case_no: u64) {}

/// One attempt of one thread, on the shared logical clock. A guard that was granted can only be
/// alive inside [t_call, t_drop_end]; it is surely alive inside [t_ret, t_drop_start].
#[cfg(feature = "parallel")]
#[derive(Clone, Copy, Debug)]
struct Att {
    thread: usize,
    excl: bool,
    granted: bool,
    t_call: u64,
    t_ret: u64,
    t_drop_start: u64,
    t_drop_end: u64,
}

/// History check of *refusals*: a holder keeps taking a shared guard, drops it and at once asks
/// for the exclusive one, while 1..3 other threads keep asking for the exclusive guard (and are
/// refused most of the time). Every attempt is recorded with logical time stamps taken before the
/// call and after the return / after the drop; afterwards every refusal must be explained by a
/// conflicting guard that was *granted* to another thread and can have been alive at some instant
/// of the refused call. A failed attempt never explains a refusal: it must leave no trace.
#[cfg(feature = "parallel")]
fn upgrade_race(rng: &mut Rng, rep: &mut Report, case_no: u64) {
    rep.evaluations += 1;
    let mut world = World::empty();
    let s = Slot::new(rng.below(NTYPES), if rng.chance(1, 2) { 0 } else { rng.below(NDYN) });
    insert_slot(&mut world, s, 1);
    let world = &world;
    let clk = AtomicU64::new(1);
    let stop = AtomicBool::new(false);
    let attackers = rng.range(1, 3);
    let rounds = rng.range(150, 600);
    let seed = rng.next();
    let typed = s.dy() == 0 && rng.chance(1, 2);
    let all: std::sync::Mutex<Vec<Att>> = std::sync::Mutex::new(Vec::new());
    let attempt = |thread: usize, excl: bool, hold: u32, out: &mut Vec<Att>| {
        let t_call = clk.fetch_add(1, SeqCst);
        let mut a = Att { thread, excl, granted: false, t_call, t_ret: 0, t_drop_start: 0, t_drop_end: 0 };
        let r = catch_unwind(AssertUnwindSafe(|| {
            if excl {
                let g = if typed { with_ty!(s.ty(), T => world.try_fetch_mut::<T>().map(WGuard::from)) } else { fetch_w(world, s) };
                let g = g.expect("present");
                let t_ret = clk.fetch_add(1, SeqCst);
                for i in 0..hold {
                    std::hint::black_box(i);
                }
                let t_ds = clk.fetch_add(1, SeqCst);
                drop(g);
                (t_ret, t_ds)
            } else {
                let g = if typed { with_ty!(s.ty(), T => world.try_fetch::<T>().map(RGuard::from)) } else { fetch_r(world, s) };
                let g = g.expect("present");
                let t_ret = clk.fetch_add(1, SeqCst);
                for i in 0..hold {
                    std::hint::black_box(i);
                }
                let t_ds = clk.fetch_add(1, SeqCst);
                drop(g);
                (t_ret, t_ds)
            }
        }));
        match r {
            Ok((t_ret, t_ds)) => {
                a.granted = true;
                a.t_ret = t_ret;
                a.t_drop_start = t_ds;
                a.t_drop_end = clk.fetch_add(1, SeqCst);
            }
            Err(_) => {
                a.t_ret = clk.fetch_add(1, SeqCst);
            }
        }
        out.push(a);
    };
    std::thread::scope(|sc| {
        let (stop, all, attempt) = (&stop, &all, &attempt);
        for t in 0..attackers {
            sc.spawn(move || {
                let mut rng = Rng::new(mix(seed, 100 + t as u64));
                let mut mine = Vec::new();
                while !stop.load(SeqCst) && mine.len() < 200_000 {
                    attempt(1 + t, true, rng.below(20) as u32, &mut mine);
                    if rng.chance(1, 6) {
                        attempt(1 + t, false, rng.below(20) as u32, &mut mine);
                    }
                }
                all.lock().unwrap().extend(mine);
            });
        }
        let mut rng = Rng::new(mix(seed, 7));
        let mut mine = Vec::new();
        for _ in 0..rounds {
            attempt(0, false, rng.below(3000) as u32, &mut mine);
            // the shared guard is gone: the exclusive one is asked for at once
            attempt(0, true, rng.below(40) as u32, &mut mine);
        }
        stop.store(true, SeqCst);
        all.lock().unwrap().extend(mine);
    });
    let _ = take_panics();
    let mut atts = all.into_inner().unwrap();
    atts.sort_by_key(|a| a.t_call);
    let granted: Vec<Att> = atts.iter().filter(|a| a.granted).cloned().collect();
    let mut refused = 0usize;
    let mut problem: Option<(String, String)> = None;
    for x in atts.iter().filter(|a| !a.granted) {
        refused += 1;
        let explained = granted.iter().any(|y| y.thread != x.thread && (x.excl || y.excl) && y.t_call <= x.t_ret && x.t_call <= y.t_drop_end);
        if !explained && problem.is_none() {
            problem = Some((
                "refused_without_a_live_guard".into(),
                format!(
                    "thread {} asked for the {} guard of {} during logical time [{}, {}] and was refused, but no conflicting guard granted to another thread can have been alive then (the nearest granted guards: {:?})",
                    x.thread,
                    if x.excl { "exclusive" } else { "shared" },
                    s.label(),
                    x.t_call,
                    x.t_ret,
                    granted.iter().filter(|y| y.thread != x.thread && y.t_drop_end + 50 >= x.t_call && y.t_call <= x.t_ret + 50).take(4).collect::<Vec<_>>()
                ),
            ));
        }
    }
    // and the other direction: two conflicting guards that were surely alive at the same time
    for (i, x) in granted.iter().enumerate() {
        for y in granted[i + 1..].iter() {
            if y.t_call > x.t_drop_end {
                break;
            }
            if x.thread != y.thread && (x.excl || y.excl) && x.t_ret < y.t_drop_start && y.t_ret < x.t_drop_start && problem.is_none() {
                problem = Some(("conflicting_guards_both_live".into(), format!("{}: {:?} and {:?} were both surely alive at one instant", s.label(), x, y)));
            }
        }
    }
    if probe(world, s) != Probe::Free && problem.is_none() {
        problem = Some(("not_released".into(), format!("after all threads finished {} probes as {:?}", s.label(), probe(world, s))));
    }
    rep.metric("upgrade_race_cases", 1);
    rep.metric("upgrade_race_attempts", atts.len() as i64);
    rep.metric("upgrade_race_refusals_explained", (refused - problem.is_some() as usize) as i64);
    rep.metric("upgrade_race_granted", granted.len() as i64);
    if let Some((k, m)) = problem {
        rep.violation(&k, &m, case_no, J::obj().set("kind", "upgrade race").set("attackers", attackers).set("rounds", rounds));
    } else if refused > 0 && granted.len() > 1 {
        rep.nontrivial(mix(0x0808, mix(attackers as u64, (refused.min(1 << 20) as u64) << 8 | (granted.len().min(255) as u64))));
    }
}

#[cfg(not(feature = "parallel"))]
fn guard_migration(_rng: &mut Rng, _rep: &mut Report, _case_no: u64) {}

/// A guard is taken on one thread and dropped on another (guards are `Send` when the resource
/// is): dropping it releases the borrow, wherever that happens - the thread that took it can
/// fetch again at once.
#[cfg(feature = "parallel")]
fn guard_migration(rng: &mut Rng, rep: &mut Report, case_no: u64) {
    rep.evaluations += 1;
    let mut world = World::empty();
    let s = Slot::new(rng.below(NTYPES), if rng.chance(1, 2) { 0 } else { rng.below(NDYN) });
    insert_slot(&mut world, s, 1);
    let world = &world;
    let rounds = rng.range(20, 120);
    let kinds: Vec<bool> = (0..rounds).map(|_| rng.chance(2, 3)).collect();
    let mut problem: Option<(String, String)> = None;
    std::thread::scope(|sc| {
        let (to_b_w, from_a_w) = std::sync::mpsc::channel::<WGuard<'_>>();
        let (to_b_r, from_a_r) = std::sync::mpsc::channel::<RGuard<'_>>();
        let (ack_tx, ack_rx) = std::sync::mpsc::channel::<()>();
        let kinds_b = kinds.clone();
        sc.spawn(move || {
            for excl in kinds_b {
                if excl {
                    match from_a_w.recv() {
                        Ok(g) => drop(g),
                        Err(_) => return,
                    }
                } else {
                    match from_a_r.recv() {
                        Ok(g) => drop(g),
                        Err(_) => return,
                    }
                }
                if ack_tx.send(()).is_err() {
                    return;
                }
            }
        });
        for (i, excl) in kinds.iter().enumerate() {
            let r = catch_unwind(AssertUnwindSafe(|| {
                if *excl {
                    let g = fetch_w(world, s).expect("present");
                    let _ = to_b_w.send(g);
                } else {
                    let g = fetch_r(world, s).expect("present");
                    let _ = to_b_r.send(g);
                }
            }));
            if let Err(p) = r {
                problem = Some((
                    "refused_without_a_live_guard".into(),
                    format!("round {}: the {} fetch of {} was refused ({}) although every earlier guard had been dropped (on another thread) and that drop had been acknowledged", i, if *excl { "exclusive" } else { "shared" }, s.label(), payload_str(&*p)),
                ));
                break;
            }
            if ack_rx.recv_timeout(std::time::Duration::from_secs(8)).is_err() {
                problem = Some(("harness".into(), "the other thread did not acknowledge the drop".into()));
                break;
            }
            if probe(world, s) != Probe::Free {
                problem = Some(("not_released".into(), format!("round {}: after the guard was dropped on another thread {} probes as {:?}", i, s.label(), probe(world, s))));
                break;
            }
        }
        drop(to_b_w);
        drop(to_b_r);
    });
    let _ = take_panics();
    rep.metric("guard_migration_cases", 1);
    rep.metric("guards_dropped_on_another_thread", rounds as i64);
    match problem {
        Some((k, m)) if k != "harness" => rep.violation(&k, &m, case_no, J::obj().set("kind", "guard migration")),
        Some(_) => rep.inconclusive += 1,
        None => rep.nontrivial(mix(0x0809, rounds as u64)),
    }
}

pub fn run(args: &Args) -> i32 {
    let mut rep = Report::new(args);
    let small = args.has("--small"); // Miri-sized
    let n = args.count(96_000, 1_600_000);
    let hist_len = if small { 30 } else { 60 };
    let stress_every = if small { 5 } else { 100 };
    let range: Vec<u64> = match args.case {
        Some(c) => vec![c],
        None => (0..n).collect(),
    };
    for c in range {
        if rep.time_up() {
            break;
        }
        let mut rng = Rng::new(args.case_seed(c));
        if !small && c % stress_every == stress_every / 4 && !args.has("--stress-only") {
            guard_case(&mut rep, c, |rep| guard_migration(&mut rng, rep, c));
        } else if !small && (c % stress_every == stress_every / 2 || (args.has("--stress-only") && c % 2 == 1)) {
            guard_case(&mut rep, c, |rep| upgrade_race(&mut rng, rep, c));
        } else if c % stress_every == stress_every - 1 || args.has("--stress-only") {
            let (th, ops) = if small { (3, 40) } else { (rng.range(2, 16), if args.thorough { 6000 } else { 1500 }) };
            guard_case(&mut rep, c, |rep| stress(&mut rng, rep, c, th, ops));
        } else {
            guard_case(&mut rep, c, |rep| single_history(&mut rng, rep, c, hist_len));
        }
    }
    rep.finish();
    0
}
