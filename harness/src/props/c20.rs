//! C20 – the printed par/seq plan is total and matches the executed plan.

use std::panic::{catch_unwind, AssertUnwindSafe};
use std::sync::Arc;

use shred::DispatcherBuilder;

use crate::ctx::*;
use crate::exec::plan_runs;
use crate::gen::*;
use crate::json::J;
use crate::layout::{recover, Layout};
use crate::plan::*;
use crate::report::*;
use crate::res::full_world;
use crate::rng::{mix, Rng};
use crate::sys::{register, Pool};

pub fn sanitise(name: &str) -> String {
    name.replace([' ', '-', '/'], "_")
}

/// Parser of the nested `seq![ par![ seq![ name, ... ], ... ], ... ]` text. Only the nesting and
/// the order of the names matter: line breaks, indentation and trailing commas are free.
pub fn parse_par_seq(text: &str) -> Result<Vec<Vec<Vec<String>>>, String> {
    #[derive(Debug, PartialEq)]
    enum Tok {
        Seq,
        Par,
        Close,
        Name(String),
    }
    let mut toks = Vec::new();
    let mut rest = text.trim();
    while !rest.is_empty() {
        if let Some(r) = rest.strip_prefix("seq![") {
            toks.push(Tok::Seq);
            rest = r.trim_start();
        } else if let Some(r) = rest.strip_prefix("par![") {
            toks.push(Tok::Par);
            rest = r.trim_start();
        } else if let Some(r) = rest.strip_prefix(']') {
            toks.push(Tok::Close);
            rest = r.trim_start();
        } else if let Some(r) = rest.strip_prefix(',') {
            rest = r.trim_start();
        } else {
            // a name: up to the next separator, closing bracket or line break
            let end = rest.find(|c| c == ',' || c == ']' || c == '\n').unwrap_or(rest.len());
            let name = rest[..end].trim();
            if name.is_empty() {
                return Err(format!("empty token before {:?}", &rest[..rest.len().min(20)]));
            }
            toks.push(Tok::Name(name.to_string()));
            rest = rest[end..].trim_start();
        }
    }
    let mut it = toks.into_iter().peekable();
    if it.next() != Some(Tok::Seq) {
        return Err("the text does not start with `seq![`".into());
    }
    let mut stages = Vec::new();
    loop {
        match it.next() {
            Some(Tok::Close) => break,
            Some(Tok::Par) => {
                let mut groups = Vec::new();
                loop {
                    match it.next() {
                        Some(Tok::Close) => break,
                        Some(Tok::Seq) => {
                            let mut names = Vec::new();
                            loop {
                                match it.next() {
                                    Some(Tok::Close) => break,
                                    Some(Tok::Name(n)) => names.push(n),
                                    other => return Err(format!("unexpected {:?} inside a group", other)),
                                }
                            }
                            groups.push(names);
                        }
                        other => return Err(format!("unexpected {:?} inside a stage", other)),
                    }
                }
                stages.push(groups);
            }
            other => return Err(format!("unexpected {:?} at stage level", other)),
        }
    }
    if let Some(t) = it.next() {
        return Err(format!("trailing text after the closing bracket: {:?}", t));
    }
    Ok(stages)
}

/// What was captured of one builder just before it was consumed.
struct Captured {
    path: String,
    /// `{:?}`, `{:#?}` and one spelling with width / precision / fill flags (their description too)
    texts: Result<(String, String, String, &'static str), String>,
    plan: Plan,
    /// names handed to this builder by registration attempts that failed (and were caught)
    ghosts: Vec<String>,
}

/// Registers the plan level by level and captures the Debug text of every builder just before it
/// is consumed (inner builders: before `add_batch`; the top builder: before `build`).
fn inst_capture(plan: &Plan, ctx: &Arc<Ctx>, pool: &Pool, path: String, texts: &mut Vec<Captured>, failed_attempts: u64, fmt_seed: u64) -> DispatcherBuilder<'static, 'static> {
    let mut b = DispatcherBuilder::new();
    #[cfg(feature = "parallel")]
    b.add_pool(pool.clone());
    let _ = pool;
    let mut ghosts = Vec::new();
    for (idx, it) in plan.items.iter().enumerate() {
        // now and then a registration attempt fails (unknown dependency / reused name / the
        // system's own code panics while the builder inspects it), the caller catches the panic
        // and carries on with the same builder: nothing was registered by it
        let extra = failed_attempts != 0 && mix(failed_attempts, idx as u64) % 5 == 0;
        let planned = if let Item::Failed(k) = it { Some(*k) } else { None };
        if extra || planned.is_some() {
            let kind = match planned {
                Some(k) => k,
                None => {
                    let h = mix(failed_attempts, idx as u64 + 99);
                    if h % 2 == 0 {
                        (h >> 8) as u8 % 2
                    } else {
                        (2 + (h >> 8) as u8 % 4) | if (h >> 16) % 2 == 0 { FAILED_NAMED } else { 0 }
                    }
                }
            };
            crate::sys::failed_attempt(&mut b, &plan.items, idx, kind, ctx);
            if kind & 15 >= 2 && kind & FAILED_NAMED != 0 {
                ghosts.push(format!("ghost of attempt {}", idx));
            }
            if kind & 15 == 0 {
                ghosts.push("never registered".to_string());
            }
            if planned.is_some() {
                continue;
            }
        }
        if let Item::Batch(bs) = it {
            let inner = inst_capture(&bs.inner, ctx, pool, format!("{}/batch{}", path, bs.uid), texts, failed_attempts, fmt_seed);
            // re-use `register`'s logic for the controller by building the batch item by hand
            let deps: Vec<&str> = bs.deps.iter().map(|d| d.as_str()).collect();
            crate::sys::add_batch_item(&mut b, bs, inner, ctx, &deps);
        } else {
            register(&mut b, it, ctx, Some(pool));
        }
    }
    let variant = mix(fmt_seed, texts.len() as u64) % 8;
    let r = catch_unwind(AssertUnwindSafe(|| {
        let (fancy, how) = match variant {
            0 => (format!("{:.7?}", b), "{:.7?}"),
            1 => (format!("{:24?}", b), "{:24?}"),
            2 => (format!("{:*>12?}", b), "{:*>12?}"),
            3 => (format!("{:<40.3?}", b), "{:<40.3?}"),
            4 => (format!("{:#.2?}", b), "{:#.2?}"),
            5 => (format!("{:08?}", b), "{:08?}"),
            6 => (format!("{:^1.0?}", b), "{:^1.0?}"),
            _ => (format!("{:+#300?}", b), "{:+#300?}"),
        };
        (format!("{:?}", b), format!("{:#?}", b), fancy, how)
    }));
    texts.push(Captured { path, texts: r.map_err(|p| payload_str(&*p)), plan: plan.clone(), ghosts });
    b
}

fn compare(path: &str, plan: &Plan, ghosts: &[String], layout: &Layout, text: &str, out: &mut Vec<(String, String)>) -> usize {
    let parsed = match parse_par_seq(text) {
        Ok(p) => p,
        Err(e) => {
            out.push(("unparsable".into(), format!("{}: printed plan does not follow the seq!/par!/seq! grammar: {}; text: {:?}", path, e, text)));
            return 0;
        }
    };
    let mut names: std::collections::HashMap<u32, String> = std::collections::HashMap::new();
    for u in plan.units() {
        names.insert(u.uid, u.name.clone());
    }
    let shape_p: Vec<Vec<usize>> = parsed.iter().map(|s| s.iter().map(|g| g.len()).collect()).collect();
    if shape_p != layout.shape() {
        out.push((
            "shape".into(),
            format!("{}: printed stage/group structure {:?} differs from the executed layout {:?} ({})", path, shape_p, layout.shape(), layout.brief()),
        ));
        return 0;
    }
    let total: usize = shape_p.iter().flatten().sum();
    if total != plan.n_units() {
        out.push(("count".into(), format!("{}: {} systems printed, {} registered", path, total, plan.n_units())));
    }
    let mut sanitised_seen = 0;
    for (si, st) in parsed.iter().enumerate() {
        for (gi, g) in st.iter().enumerate() {
            for (pi, tok) in g.iter().enumerate() {
                let uid = layout.stages[si][gi][pi];
                let nm = &names[&uid];
                if !nm.is_empty() {
                    let want = sanitise(nm);
                    if &want != nm {
                        sanitised_seen += 1;
                    }
                    if *tok != want {
                        out.push((
                            "name_at_position".into(),
                            format!("{}: position (stage {}, group {}, pos {}) runs u{} named {:?} (sanitised {:?}) but the text shows {:?}", path, si, gi, pi, uid, nm, want, tok),
                        ));
                    }
                } else {
                    // an unnamed system is shown by a placeholder: not by a name that was handed
                    // to this builder for something else
                    let other = names.values().filter(|n| !n.is_empty()).map(|n| sanitise(n)).chain(ghosts.iter().map(|g| sanitise(g))).find(|n| n == tok);
                    if let Some(o) = other {
                        out.push((
                            "unnamed_shown_under_a_name".into(),
                            format!("{}: position (stage {}, group {}, pos {}) runs the unnamed system u{} but the text shows {:?}, a name given to something else", path, si, gi, pi, uid, o),
                        ));
                    }
                }
            }
        }
    }
    sanitised_seen
}

const PROFILES: [Profile; 10] = [
    Profile::WideStage,
    Profile::Names,
    Profile::Names,
    Profile::Names,
    Profile::Mixed,
    Profile::Batchy,
    Profile::Funnel,
    Profile::DepFans,
    Profile::Tiny,
    Profile::BarrierHeavy,
];

fn case(rng: &mut Rng, pool: &Pool, rep: &mut Report, case_no: u64) {
    let profile = *rng.pick(&PROFILES);
    let mut c = cfg_for(profile, rng);
    if rng.chance(1, 2) {
        c.p_unnamed = rng.range(10, 60);
    }
    if rng.chance(1, 3) {
        c.fancy_names = true;
    }
    let plan = if rng.chance(1, 40) { Plan::default() } else { gen_with(rng, &c) };
    rep.evaluations += 1;
    rep.metric(&format!("profile_{}", profile.name()), 1);
    let (ev, _) = plan_runs(&plan);
    let ctx = Ctx::new(plan.n_uids().max(1), ev + 16);
    let mut texts = Vec::new();
    let failed_attempts = if rng.chance(1, 5) { rng.next() | 1 } else { 0 };
    if failed_attempts != 0 {
        rep.metric("builders_with_caught_failed_registrations", 1);
    }
    let fmt_seed = rng.next();
    let b = match catch_unwind(AssertUnwindSafe(|| inst_capture(&plan, &ctx, pool, "top".into(), &mut texts, failed_attempts, fmt_seed))) {
        Ok(b) => b,
        Err(p) => {
            rep.inconclusive += 1;
            rep.notes.push(format!("case {}: builder panicked: {}", case_no, payload_str(&*p)));
            return;
        }
    };
    let mut disp = b.build();
    let world = full_world();
    let layout = match recover(&mut disp, &ctx, &world) {
        Ok(l) => l,
        Err(e) => {
            rep.metric("other_property_findings", 1);
            rep.notes.push(format!("case {}: {}", case_no, e));
            return;
        }
    };
    let mut problems: Vec<(String, String)> = Vec::new();
    let mut unnamed = 0usize;
    let mut sanitised = 0usize;
    for cap in &texts {
        let (path, level_plan) = (&cap.path, &cap.plan);
        // locate the layout of this level
        let mut l: Option<&Layout> = Some(&layout);
        for seg in path.split('/').skip(1) {
            let uid: u32 = seg.trim_start_matches("batch").parse().unwrap_or(0);
            l = l.and_then(|x| x.batches.get(&uid)).and_then(|x| x.as_ref());
        }
        unnamed += level_plan.units().iter().filter(|u| u.name.is_empty()).count();
        match &cap.texts {
            Err(p) => problems.push(("format_panics".into(), format!("{}: formatting the builder with {{:?}} panicked: {}", path, p))),
            Ok((plain, pretty, fancy, how)) => {
                rep.metric("texts_checked", 1);
                // every spelling must describe the same plan; compare those that differ
                for (other, tag) in [(pretty, "{:#?}"), (fancy, *how)] {
                    if other != plain {
                        rep.metric("alternative_spellings_compared", 1);
                        match l {
                            Some(l) => {
                                compare(&format!("{} ({})", path, tag), level_plan, &cap.ghosts, l, other, &mut problems);
                            }
                            None => {
                                if parse_par_seq(other).ok() != parse_par_seq(plain).ok() {
                                    problems.push(("spellings_differ".into(), format!("{}: the {} text lists other systems than the {{:?}} text", path, tag)));
                                }
                            }
                        }
                    }
                }
                match l {
                    Some(l) => sanitised += compare(path, level_plan, &cap.ghosts, l, plain, &mut problems),
                    None => {
                        // MultiDispatcher batch: the inner layout is not reachable; grammar and count only
                        match parse_par_seq(plain) {
                            Ok(p) => {
                                let total: usize = p.iter().flatten().map(|g| g.len()).sum();
                                if total != level_plan.n_units() {
                                    problems.push(("count".into(), format!("{}: {} systems printed, {} registered", path, total, level_plan.n_units())));
                                }
                            }
                            Err(e) => problems.push(("unparsable".into(), format!("{}: {}", path, e))),
                        }
                    }
                }
            }
        }
    }
    // ---- the plan that was printed is the plan that is run - also after the dispatcher has been
    // used: every 64th small plan is dispatched a few times with one system that stays inside
    // `run` for 25 ms (a dispatcher that re-arranges itself by measured running times would react),
    // then the executed layout is read again and compared with the text once more ----
    if problems.is_empty() && case_no % 64 == 5 && plan.n_systems_total() <= 14 && layout.has_parallel_stage() && plan.slots_used().iter().all(|s| s.is_std()) {
        let top: Vec<u32> = layout.stages.iter().flat_map(|s| s.iter().skip(1)).flatten().cloned().collect();
        if let Some(&target) = top.get((case_no as usize / 64) % top.len().max(1)) {
            ctx.arm(Arc::new(OneVerySlow { target, ms: 25 }));
            ctx.set_mode(Mode::Run);
            let r = catch_unwind(AssertUnwindSafe(|| {
                for _ in 0..2 {
                    ctx.log.reset();
                    disp.dispatch(&world);
                }
            }));
            ctx.set_mode(Mode::Build);
            ctx.disarm();
            let _ = ctx.take_violations();
            if r.is_ok() {
                rep.metric("plans_compared_again_after_slow_dispatches", 1);
                match recover(&mut disp, &ctx, &world) {
                    Ok(l2) => {
                        if let Some(Captured { texts: Ok((plain, _, _, _)), plan: lp, ghosts, .. }) = texts.last() {
                            let mut p2 = Vec::new();
                            compare("top (after two dispatches with one slow system)", lp, ghosts, &l2, plain, &mut p2);
                            for (k, m) in p2 {
                                problems.push((format!("{}:after_dispatch", k), m));
                            }
                        }
                    }
                    Err(e) => rep.notes.push(format!("case {}: {}", case_no, e)),
                }
            }
        }
    }
    rep.metric("unnamed_systems", unnamed as i64);
    rep.metric("sanitised_names", sanitised as i64);
    let mut seen = std::collections::BTreeSet::new();
    for (k, m) in &problems {
        if seen.insert(k.clone()) {
            let kind = if k == "format_panics" && unnamed > 0 { "format_panics:unnamed_system".to_string() } else { k.clone() };
            rep.violation(
                &kind,
                m,
                case_no,
                J::obj().set("plan", plan.to_json()).set("layout", layout.to_json()).set(
                    "text",
                    texts.last().and_then(|t| t.texts.as_ref().ok()).map(|t| t.0.clone()).unwrap_or_default(),
                ),
            );
        }
    }
    let nontrivial = layout.has_parallel_stage() && (unnamed > 0 || sanitised > 0);
    if nontrivial {
        rep.nontrivial(mix(plan.hash(), layout.hash()));
    }
    if rep.samples.len() < rep.max_samples && nontrivial && plan.n_systems_total() < 14 {
        if let Some(Captured { texts: Ok((t, _, _, _)), .. }) = texts.last() {
            rep.sample(J::obj().set("case", case_no).set("plan", plan.to_json()).set("layout", layout.to_json()).set("printed", t.as_str()));
        }
    }
}

/// The builder is formatted from the destructor of a thread-local value while its thread exits
/// (a "report on exit" holder): formatting never panics, wherever it is called from, and says
/// the same as before.
fn format_at_thread_exit(rng: &mut Rng, rep: &mut Report, case_no: u64) {
    use std::cell::RefCell;
    use std::sync::mpsc;
    struct Holder {
        builder: DispatcherBuilder<'static, 'static>,
        tx: mpsc::Sender<Result<String, String>>,
    }
    impl Drop for Holder {
        fn drop(&mut self) {
            let b = &self.builder;
            let r = catch_unwind(AssertUnwindSafe(|| format!("{:?}", b)));
            let _ = self.tx.send(r.map_err(|p| payload_str(&*p)));
        }
    }
    thread_local! {
        static HOLD: RefCell<Option<Holder>> = const { RefCell::new(None) };
    }
    let mut c = cfg_for(Profile::Names, rng);
    c.n = (2, 8);
    c.p_batch = 0;
    let plan = gen_with(rng, &c);
    rep.evaluations += 1;
    let ctx = Ctx::new(plan.n_uids().max(1), 16);
    let (tx, rx) = mpsc::channel();
    let (plan2, ctx2) = (plan.clone(), ctx.clone());
    let first = std::thread::spawn(move || {
        let builder = crate::sys::instantiate(&plan2, &ctx2, None);
        // the holder's thread-local slot exists before the library formats anything on this thread
        HOLD.with(|h| *h.borrow_mut() = Some(Holder { builder, tx }));
        HOLD.with(|h| h.borrow().as_ref().map(|x| format!("{:?}", x.builder)))
        // the thread ends here: its thread-local values are destroyed, the holder among them
    })
    .join();
    rep.metric("builders_formatted_at_thread_exit", 1);
    let first = match first {
        Ok(Some(t)) => t,
        _ => {
            rep.violation("format_panics", "formatting a builder on a fresh thread panicked", case_no, J::obj().set("plan", plan.to_json()));
            return;
        }
    };
    match rx.recv_timeout(std::time::Duration::from_secs(8)) {
        Ok(Ok(t)) => {
            if t != first {
                rep.violation("spellings_differ", "the builder formatted from a thread-local destructor at thread exit reads differently from the same builder formatted a moment earlier", case_no, J::obj().set("plan", plan.to_json()).set("text", first).set("text_at_exit", t));
            } else {
                rep.nontrivial(mix(plan.hash(), 0xe817));
            }
        }
        Ok(Err(p)) => rep.violation("format_panics:at_thread_exit", &format!("formatting the builder from the destructor of a thread-local value at thread exit panicked: {}", p), case_no, J::obj().set("plan", plan.to_json())),
        Err(_) => rep.inconclusive += 1,
    }
}

pub fn run(args: &Args) -> i32 {
    let mut rep = Report::new(args);
    let pool = crate::sys::make_pool(1);
    let n = args.count(160_000, 2_000_000);
    let range: Vec<u64> = match args.case {
        Some(c) => vec![c],
        None => (0..n).collect(),
    };
    for c in range {
        if rep.time_up() {
            break;
        }
        let mut rng = Rng::new(args.case_seed(c));
        if c % 500 == 77 {
            guard_case(&mut rep, c, |rep| format_at_thread_exit(&mut rng, rep, c));
            continue;
        }
        guard_case(&mut rep, c, |rep| case(&mut rng, &pool, rep, c));
    }
    rep.finish();
    0
}
