//! C05 – schedule independence: a perturbed parallel twin equals a `dispatch_seq` twin after every
//! dispatch (order-sensitive world digest + per-system observation digests).

use std::sync::atomic::Ordering::SeqCst;
use std::sync::Arc;
use std::time::Duration;

use crate::ctx::*;
use crate::exec::*;
use crate::gen::*;
use crate::json::{hex, J};
use crate::plan::*;
use crate::props::sched::*;
use crate::report::*;
use crate::res::*;
use crate::rng::{mix, Rng};

const PROFILES: [Profile; 13] = [
    Profile::Dense,
    Profile::Dense,
    Profile::Funnel,
    Profile::Mixed,
    Profile::Batchy,
    Profile::Tiny,
    Profile::Tiny,
    Profile::SparseWide,
    Profile::Dense,
    Profile::Mixed,
    Profile::Funnel,
    Profile::Batchy,
    Profile::WideStage,
];

fn writers_per_slot(plan: &Plan) -> usize {
    let mut cnt = [0usize; NSLOTS];
    plan.walk(&mut |it, _| match it {
        Item::Sys(s) => {
            for w in &s.writes {
                cnt[w.0 as usize] += 1;
            }
        }
        Item::Tl(t) => {
            for w in &t.writes {
                cnt[w.0 as usize] += 1;
            }
        }
        Item::Batch(b) => {
            for w in b.ctl_access().writes {
                cnt[w.0 as usize] += 1;
            }
        }
        _ => {}
    });
    cnt.iter().cloned().max().unwrap_or(0)
}

fn diff_tables(p: &Inst, s: &Inst) -> String {
    let mut d = Vec::new();
    for ((sl, a), (_, b)) in world_table(&p.world).iter().zip(world_table(&s.world).iter()) {
        if a != b {
            d.push(format!("{}: parallel {:x?} vs sequential {:x?}", sl.label(), a, b));
        }
    }
    let (op, os) = (p.ctx.obs_table(), s.ctx.obs_table());
    for u in 0..op.len() {
        if op[u] != os[u] {
            d.push(format!("state of u{}: parallel {:x} vs sequential {:x}", u, op[u], os[u]));
        }
    }
    d.truncate(6);
    d.join("; ")
}

/// All interleavings (linear extensions) of the step sequences of one stage, via callback.
/// Returns false if the callback asked to stop.
pub fn for_each_interleaving(stage: &[Vec<u32>], limit: u64, f: &mut dyn FnMut(&[(u32, u8)]) -> bool) -> (u64, bool) {
    let seqs: Vec<Vec<(u32, u8)>> = stage.iter().map(|g| g.iter().flat_map(|u| (0..3u8).map(move |s| (*u, s))).collect()).collect();
    let total: usize = seqs.iter().map(|s| s.len()).sum();
    let mut idx = vec![0usize; seqs.len()];
    let mut cur: Vec<(u32, u8)> = Vec::with_capacity(total);
    let mut count = 0u64;
    fn go(seqs: &[Vec<(u32, u8)>], idx: &mut Vec<usize>, cur: &mut Vec<(u32, u8)>, total: usize, count: &mut u64, limit: u64, f: &mut dyn FnMut(&[(u32, u8)]) -> bool) -> bool {
        if cur.len() == total {
            *count += 1;
            if !f(cur) {
                return false;
            }
            return *count < limit;
        }
        for g in 0..seqs.len() {
            if idx[g] < seqs[g].len() {
                cur.push(seqs[g][idx[g]]);
                idx[g] += 1;
                let cont = go(seqs, idx, cur, total, count, limit, f);
                idx[g] -= 1;
                cur.pop();
                if !cont {
                    return false;
                }
            }
        }
        true
    }
    let complete = go(&seqs, &mut idx, &mut cur, total, &mut count, limit, f);
    (count, complete)
}

pub fn interleaving_count(stage: &[Vec<u32>]) -> f64 {
    // multinomial (sum 3 n_i)! / prod (3 n_i)!
    let lens: Vec<usize> = stage.iter().map(|g| 3 * g.len()).collect();
    let mut r = 1f64;
    let mut placed = 0usize;
    for l in lens {
        for i in 1..=l {
            placed += 1;
            r = r * placed as f64 / i as f64;
        }
    }
    r
}

struct Twins {
    p: Inst,
    s: Inst,
}

fn make_twins(plan: &Plan, pools: &mut Pools, pool_size: usize) -> Result<Twins, String> {
    let pool = pools.get(pool_size);
    let p = build(plan, Some(&pool), pool_size, 64)?;
    let one = pools.get(1);
    let s = build(plan, Some(&one), 1, 64)?;
    s.ctx.inner_seq.store(true, SeqCst);
    Ok(Twins { p, s })
}

/// One dispatch on both twins; returns a description of the difference, if any.
fn step(t: &mut Twins, pm: DMode, sm: DMode, driver: Arc<dyn Driver>, rep: &mut Report, est: &mut (usize, usize)) -> Result<Option<String>, String> {
    let out = t.p.run(pm, driver);
    if let Some(p) = out.panic {
        return Err(format!("parallel twin panicked: {}", p));
    }
    if let Some(p) = t.s.run_quiet(sm) {
        return Err(format!("sequential twin panicked: {}", p));
    }
    // overlaps actually achieved (evidence that the schedule driver produced concurrency)
    if !out.overflow {
        let mut f = Vec::new();
        let opts = crate::oracle::EOpts { expect_tl: pm.runs_tl(), caller_thread: out.caller, outer_mode: pm.outer() , top_mult: 1, partial: false, tl_mult: None};
        let st = crate::oracle::e_oracle(&t.p.plan, &out.events, &opts, &mut f);
        est.0 += st.unordered_overlaps;
        est.1 += st.unordered_pairs;
        rep.set_add("event_orders", st.order_hash);
    }
    let torn = t.p.ctx.take_violations();
    let _ = t.s.ctx.take_violations();
    if let Some(tv) = torn.into_iter().find(|v| v.starts_with("torn")) {
        return Ok(Some(format!("torn value observed by the parallel twin: {}", tv)));
    }
    let (wp, ws) = (world_digest(&t.p.world), world_digest(&t.s.world));
    let (op, os) = (t.p.ctx.obs_digest(), t.s.ctx.obs_digest());
    if wp != ws || op != os {
        return Ok(Some(diff_tables(&t.p, &t.s)));
    }
    Ok(None)
}

fn case(rng: &mut Rng, pools: &mut Pools, rep: &mut Report, case_no: u64, dump: bool) {
    let profile = *rng.pick(&PROFILES);
    let mut c = cfg_for(profile, rng);
    if profile == Profile::WideStage {
        // one stage of more than 256 groups; the few systems with access share few resources
        c.n = (258, 340);
        c.tl = (0, 1);
    } else {
        c.p_static = c.p_static.max(25);
        c.tl = (0, 2);
        if c.slots.len() > 10 {
            let k = rng.range(3, 10);
            let all = c.slots.clone();
            c.slots = pick_slots(rng, &all, k);
        }
    }
    c.max_w = c.max_w.max(1);
    let plan = gen_with(rng, &c);
    let pool_size = *rng.pick(&POOL_SIZES);
    let ndisp = rng.range(2, 4);
    let with_tl = rng.chance(2, 3);
    rep.evaluations += 1;
    rep.metric(&format!("profile_{}", profile.name()), 1);
    let (pm, sm) = if with_tl { (DMode::Dispatch, DMode::SeqTl) } else { (DMode::Par, DMode::Seq) };

    if dump || !cfg!(feature = "parallel") {
        // reference digests of this configuration (used for the parallel-feature on/off comparison)
        let one = pools.get(1);
        match build(&plan, Some(&one), 1, 16) {
            Ok(mut s) => {
                for _ in 0..ndisp {
                    // `dispatch` itself: with the feature off this *is* the sequential path
                    if let Some(p) = s.run_quiet(if with_tl { DMode::Dispatch } else { DMode::Par }) {
                        rep.inconclusive += 1;
                        rep.notes.push(format!("case {}: {}", case_no, p));
                        return;
                    }
                }
                rep.table.push((case_no, plan.hash(), mix(world_digest(&s.world), s.ctx.obs_digest())));
            }
            Err(e) => {
                rep.inconclusive += 1;
                rep.notes.push(format!("case {}: {}", case_no, e));
            }
        }
        return;
    }

    let mut t = match make_twins(&plan, pools, pool_size) {
        Ok(t) => t,
        Err(e) => {
            rep.inconclusive += 1;
            rep.notes.push(format!("case {}: {}", case_no, e));
            return;
        }
    };
    rep.metric(&format!("pool_{}", pool_size), 1);
    let need = threads_needed(&t.p.layout);
    let pool_ok = pool_size >= need;
    let mut est = (0usize, 0usize);
    let mut scripts = 0usize;
    let mut driver_name = String::new();
    let mut failure: Option<(String, String)> = None;
    for di in 0..ndisp {
        let dp = {
            let l = &t.p.layout;
            let cand: Vec<&Vec<Vec<u32>>> = l
                .stages
                .iter()
                .filter(|s| s.len() >= 2 && s.len() <= 4 && s.iter().map(|g| g.len()).sum::<usize>() <= 6 && s.iter().flatten().all(|u| !l.batches.contains_key(u)))
                .collect();
            match rng.below(10) {
                0..=2 if pool_ok => DriverPlan::Overlap,
                3..=5 if pool_ok && !cand.is_empty() => DriverPlan::Script(random_script(cand[rng.below(cand.len())], rng)),
                9 => DriverPlan::Free,
                _ => DriverPlan::Jitter(rng.next(), if rng.chance(1, 6) { 1 } else { 0 }),
            }
        };
        let mut sc: Option<Arc<Script>> = None;
        let driver: Arc<dyn Driver> = match &dp {
            DriverPlan::Overlap => {
                let mut pts = Vec::new();
                overlap_points(&t.p.layout, &mut pts);
                Arc::new(Overlap::new(pts, Duration::from_millis(200)))
            }
            DriverPlan::Script(s) => {
                let x = Arc::new(Script::new(s.clone(), Duration::from_millis(1500)));
                sc = Some(x.clone());
                x
            }
            DriverPlan::Jitter(s, l) => Arc::new(Jitter { seed: *s, level: *l }),
            DriverPlan::Slow(s) => Arc::new(Slow { seed: *s }),
            _ => Arc::new(Free),
        };
        driver_name = driver.name();
        match step(&mut t, pm, sm, driver, rep, &mut est) {
            Err(e) => {
                rep.metric("other_property_findings", 1);
                rep.notes.push(format!("case {}: {}", case_no, e));
                return;
            }
            Ok(Some(d)) => {
                failure = Some(("twin_differs".into(), format!("after dispatch #{} ({} on pool {} under {}) the parallel twin differs from the dispatch_seq twin: {}", di + 1, pm.name(), pool_size, driver_name, d)));
                break;
            }
            Ok(None) => {}
        }
        if let Some(s) = sc {
            if s.finished() {
                scripts += 1;
                rep.metric("scripts_followed", 1);
                rep.set_add("scripts", script_hash(&s.order));
            } else {
                rep.metric("scripts_stuck", 1);
                rep.inconclusive += 1;
            }
        }
        rep.metric("twin_dispatches", 1);
    }
    rep.table.push((case_no, plan.hash(), mix(world_digest(&t.p.world), t.p.ctx.obs_digest())));
    rep.metric("unordered_overlaps_observed", est.0 as i64);
    if let Some((k, m)) = failure {
        rep.violation(&k, &m, case_no, J::obj().set("plan", plan.to_json()).set("layout", t.p.layout.to_json()).set("pool", pool_size).set("driver", driver_name.as_str()));
        return;
    }
    let w = writers_per_slot(&plan);
    if (scripts > 0 || est.0 > 0) && w >= 2 {
        rep.nontrivial(mix(t.p.layout.hash(), mix(est.0 as u64, scripts as u64) ^ case_no));
    }
    if rep.samples.len() < rep.max_samples && est.0 > 0 && w >= 2 && plan.n_systems_total() < 14 {
        rep.sample(
            J::obj()
                .set("case", case_no)
                .set("plan", plan.to_json())
                .set("layout", t.p.layout.to_json())
                .set("pool", pool_size)
                .set("dispatches", ndisp)
                .set("modes", format!("{} vs {}", pm.name(), sm.name()))
                .set("last_driver", driver_name.as_str())
                .set("final_world_digest", hex(world_digest(&t.p.world)))
                .set("final_state_digest", hex(t.p.ctx.obs_digest()))
                .set("unordered_overlaps_observed", est.0),
        );
    }
}

/// The async dispatcher as the parallel twin: dispatch(), optionally a look at the dispatcher,
/// wait() - against dispatch_seq + dispatch_thread_local of the sequential twin.
#[cfg(feature = "parallel")]
fn case_async(rng: &mut Rng, pools: &mut Pools, rep: &mut Report, case_no: u64) {
    use crate::sys::instantiate;
    let profile = *rng.pick(&PROFILES);
    let mut c = cfg_for(profile, rng);
    c.p_static = c.p_static.max(25);
    c.tl = (0, 3);
    c.n = (c.n.0.min(2), c.n.1.min(16));
    if c.slots.len() > 8 {
        let k = rng.range(3, 8);
        let all = c.slots.clone();
        c.slots = pick_slots(rng, &all, k);
    }
    let plan = gen_with(rng, &c);
    let pool_size = *rng.pick(&POOL_SIZES);
    let pool = pools.get(pool_size);
    rep.evaluations += 1;
    rep.metric("async_twin_cases", 1);
    let one = pools.get(1);
    let Ok(mut s) = build(&plan, Some(&one), 1, 16) else {
        rep.inconclusive += 1;
        return;
    };
    s.ctx.inner_seq.store(true, SeqCst);
    let ctx = Ctx::new(plan.n_uids().max(1), 16);
    let Ok(b) = std::panic::catch_unwind(std::panic::AssertUnwindSafe(|| instantiate(&plan, &ctx, Some(&pool)))) else {
        rep.inconclusive += 1;
        return;
    };
    let mut ad = b.build_async(crate::res::full_world_with(plan.slots_used().into_iter()));
    ctx.set_mode(Mode::Quiet);
    ctx.arm(Arc::new(Jitter { seed: rng.next(), level: 0 }));
    let rounds = rng.range(2, 5);
    let mut hist = Vec::new();
    for r in 0..rounds {
        ad.dispatch();
        let peek = rng.below(6);
        match peek {
            0 => {
                let _ = ad.running();
                hist.push("dispatch; running(); wait");
            }
            1 => {
                let t = std::time::Instant::now();
                while ad.running() && t.elapsed() < Duration::from_secs(8) {
                    std::thread::yield_now();
                }
                hist.push("dispatch; while running() {}; wait");
            }
            2 => {
                let _ = ad.world();
                hist.push("dispatch; world(); wait");
            }
            3 => {
                ad.wait_without_tl();
                hist.push("dispatch; wait_without_tl(); wait");
            }
            _ => hist.push("dispatch; wait"),
        }
        ad.wait();
        if let Some(p) = s.run_quiet(DMode::SeqTl) {
            rep.notes.push(format!("case {}: sequential twin panicked: {}", case_no, p));
            return;
        }
        let (wp, ws) = (world_digest(ad.world()), world_digest(&s.world));
        let (op, os) = (ctx.obs_digest(), s.ctx.obs_digest());
        if wp != ws || op != os {
            let mut d = Vec::new();
            for ((sl, a), (_, b)) in world_table(ad.world()).iter().zip(world_table(&s.world).iter()) {
                if a != b {
                    d.push(format!("{}: async {:x?} vs sequential {:x?}", sl.label(), a, b));
                }
            }
            let (ot, st) = (ctx.obs_table(), s.ctx.obs_table());
            for u in 0..ot.len() {
                if ot[u] != st[u] {
                    d.push(format!("state of u{}: async {:x} vs sequential {:x}", u, ot[u], st[u]));
                }
            }
            d.truncate(6);
            rep.violation(
                "async_twin_differs",
                &format!("after round {} of the history {:?} on the async dispatcher (pool {}) world/system state differs from dispatch_seq + dispatch_thread_local: {}", r + 1, hist, pool_size, d.join("; ")),
                case_no,
                J::obj().set("plan", plan.to_json()).set("pool", pool_size),
            );
            return;
        }
        rep.metric("twin_dispatches", 1);
    }
    ctx.set_mode(Mode::Build);
    let _ = ctx.take_violations();
    if writers_per_slot(&plan) >= 2 && !plan.tls().is_empty() {
        rep.nontrivial(mix(plan.hash(), 0xa51c));
    }
}

/// Exhaustive scripted interleavings of one small stage: every linear extension of the
/// fetch/body/release steps of the systems the stage runs side by side.
fn exhaustive_case(rng: &mut Rng, pools: &mut Pools, rep: &mut Report, case_no: u64, limit: u64) {
    // a small plan whose first parallel stage is worth enumerating
    let shapes: &[&[usize]] = if limit > 100_000 { &[&[1, 1], &[1, 1, 1], &[2, 1], &[2, 2], &[1, 1, 1, 1], &[3, 1], &[2, 1, 1]] } else { &[&[1, 1], &[1, 1, 1], &[2, 1]] };
    let want = *rng.pick(shapes);
    // generate until a plan has a stage with exactly this group-size signature
    for _attempt in 0..400 {
        let mut c = cfg_for(Profile::Tiny, rng);
        c.n = (2, 7);
        c.p_static = 30;
        c.p_dep = 5;
        c.p_barrier = 0;
        let plan = gen_with(rng, &c);
        let pool_size = 8;
        let Ok(mut t) = make_twins(&plan, pools, pool_size) else { continue };
        let stage = t.p.layout.stages.iter().find(|s| {
            let mut sig: Vec<usize> = s.iter().map(|g| g.len()).collect();
            sig.sort_by(|a, b| b.cmp(a));
            sig == want
        });
        let Some(stage) = stage.cloned() else { continue };
        if writers_per_slot(&plan) < 1 {
            continue;
        }
        let total = interleaving_count(&stage);
        rep.evaluations += 1;
        rep.metric("exhaustive_plans", 1);
        let mut est = (0usize, 0usize);
        let mut bad: Option<String> = None;
        let mut stuck = 0u64;
        let mut done = 0u64;
        let (count, complete) = {
            let t = &mut t;
            let rep_cell = std::cell::RefCell::new(&mut *rep);
            for_each_interleaving(&stage, limit, &mut |sigma| {
                let sc = Arc::new(Script::new(sigma.to_vec(), Duration::from_millis(2000)));
                let mut rr = rep_cell.borrow_mut();
                match step(t, DMode::Dispatch, DMode::SeqTl, sc.clone(), &mut rr, &mut est) {
                    Err(e) => {
                        bad = Some(format!("ERR:{}", e));
                        false
                    }
                    Ok(Some(d)) => {
                        bad = Some(format!("under the scripted interleaving {:?} the parallel twin differs from the dispatch_seq twin: {}", sigma, d));
                        false
                    }
                    Ok(None) => {
                        if sc.finished() {
                            done += 1;
                            rr.set_add("scripts", script_hash(sigma));
                        } else {
                            stuck += 1;
                        }
                        true
                    }
                }
            })
        };
        rep.metric("exhaustive_scripts_followed", done as i64);
        rep.metric("exhaustive_scripts_stuck", stuck as i64);
        rep.metric("twin_dispatches", count as i64);
        rep.inconclusive += stuck;
        if complete && stuck == 0 && bad.is_none() {
            rep.metric("stages_enumerated_completely", 1);
            rep.notes.push(format!("case {}: stage {:?} enumerated completely: {} interleavings (expected {})", case_no, stage, count, total));
        }
        if let Some(b) = bad {
            if let Some(e) = b.strip_prefix("ERR:") {
                rep.metric("other_property_findings", 1);
                rep.notes.push(format!("case {}: {}", case_no, e));
            } else {
                rep.violation("twin_differs_scripted", &b, case_no, J::obj().set("plan", plan.to_json()).set("layout", t.p.layout.to_json()).set("stage", format!("{:?}", stage)));
            }
            return;
        }
        if done > 0 {
            rep.nontrivial(mix(t.p.layout.hash(), done));
        }
        if rep.samples.len() < rep.max_samples + 1 {
            rep.samples.push(
                J::obj()
                    .set("case", case_no)
                    .set("kind", "exhaustive scripted interleavings of one stage")
                    .set("plan", plan.to_json())
                    .set("layout", t.p.layout.to_json())
                    .set("stage", format!("{:?}", stage))
                    .set("interleavings_expected", total)
                    .set("interleavings_run", count)
                    .set("followed_exactly", done)
                    .set("complete", complete),
            );
        }
        return;
    }
    rep.notes.push(format!("case {}: no plan with stage signature {:?} found", case_no, want));
}

pub fn run(args: &Args) -> i32 {
    let mut rep = Report::new(args);
    let mut pools = Pools::new();
    let dump = args.has("--dump");
    if args.has("--exhaustive") {
        // few, long cases: one per shard in quick, several in thorough
        let n = args.count(16, 64);
        let limit: u64 = if args.thorough { 400_000 } else { 2_000 };
        for c in 0..n {
            if rep.time_up() {
                break;
            }
            let cn = 1_000_000 + c;
            let mut rng = Rng::new(args.case_seed(cn));
            guard_case(&mut rep, cn, |rep| exhaustive_case(&mut rng, &mut pools, rep, cn, limit));
        }
        rep.finish();
        return 0;
    }
    let n = args.count(12_000, 160_000);
    let range: Vec<u64> = match args.case {
        Some(c) => vec![c],
        None => (0..n).collect(),
    };
    for c in range {
        if rep.time_up() {
            break;
        }
        let mut rng = Rng::new(args.case_seed(c));
        let thorough = args.thorough;
        #[cfg(feature = "parallel")]
        if c % 6 == 5 && c < 1_000_000 && !dump {
            guard_case(&mut rep, c, |rep| case_async(&mut rng, &mut pools, rep, c));
            continue;
        }
        guard_case(&mut rep, c, |rep| {
            if c >= 1_000_000 {
                exhaustive_case(&mut rng, &mut pools, rep, c, if thorough { 400_000 } else { 2_000 });
            } else {
                case(&mut rng, &mut pools, rep, c, dump);
            }
        });
    }
    rep.finish();
    0
}
