//! C14 – a panicking system is contained: propagated, nothing leaked, reusable.

use std::collections::BTreeSet;
use std::sync::atomic::{AtomicUsize, Ordering::SeqCst};
use std::sync::Arc;
use std::time::{Duration, Instant};

use crate::ctx::*;
use crate::exec::*;
use crate::gen::*;
use crate::json::J;
use crate::layout::Layout;
use crate::oracle::*;
use crate::plan::*;
use crate::props::sched::POOL_SIZES;
use crate::report::*;
use crate::res::*;
use crate::rng::{mix, Rng};

/// Positions the siblings of the victim's stage relative to the instant of the panic.
pub struct Phase {
    victim: u32,
    /// uids that are parked / awaited
    sibs: Vec<u32>,
    /// 0 = siblings held before fetch, 1 = siblings held inside run, 2 = siblings already finished
    mode: u8,
    in_position: AtomicUsize,
    cap: Duration,
    pub positioned: AtomicUsize,
}

impl Driver for Phase {
    fn gate(&self, ctx: &Ctx, uid: u32, g: Gate) {
        if uid == self.victim {
            if g == Gate::PreRun {
                let n = self.sibs.len();
                if wait_until(Instant::now() + self.cap, || self.in_position.load(SeqCst) >= n) {
                    self.positioned.store(1, SeqCst);
                }
            }
            return;
        }
        if !self.sibs.contains(&uid) {
            return;
        }
        let fired0 = 0;
        match (self.mode, g) {
            (0, Gate::PreFetch) | (1, Gate::PostRun) => {
                self.in_position.fetch_add(1, SeqCst);
                wait_until(Instant::now() + self.cap, || ctx.panic_fired.load(SeqCst) > fired0);
            }
            (2, Gate::PostRelease) => {
                self.in_position.fetch_add(1, SeqCst);
            }
            _ => {}
        }
    }
    fn name(&self) -> String {
        format!("panic-phase(victim u{}, siblings {:?} {})", self.victim, self.sibs, ["before fetch", "inside run", "finished"][self.mode as usize])
    }
}

/// (level plan, level layout, enclosing batch uids) of the level that registers `uid`.
fn find_level<'a>(plan: &'a Plan, layout: &'a Layout, uid: u32, chain: &mut Vec<u32>) -> Option<(&'a Plan, Option<&'a Layout>)> {
    for it in &plan.items {
        match it {
            Item::Sys(s) if s.uid == uid => return Some((plan, Some(layout))),
            Item::Tl(t) if t.uid == uid => return Some((plan, Some(layout))),
            Item::Batch(b) => {
                if b.uid == uid {
                    return Some((plan, Some(layout)));
                }
                chain.push(b.uid);
                match layout.batches.get(&b.uid) {
                    Some(Some(il)) => {
                        if let Some(r) = find_level(&b.inner, il, uid, chain) {
                            return Some(r);
                        }
                    }
                    _ => {
                        // multi batch: layout unknown below
                        let mut found = false;
                        b.inner.walk(&mut |x, _| match x {
                            Item::Sys(s) if s.uid == uid => found = true,
                            Item::Tl(t) if t.uid == uid => found = true,
                            Item::Batch(bb) if bb.uid == uid => found = true,
                            _ => {}
                        });
                        if found {
                            return Some((&b.inner, None));
                        }
                    }
                }
                chain.pop();
            }
            _ => {}
        }
    }
    None
}

fn victims_of(plan: &Plan) -> Vec<(u32, bool, bool)> {
    // (uid, is_tl, is_dyn_system)
    let mut v = Vec::new();
    plan.walk(&mut |it, _| match it {
        Item::Sys(s) => v.push((s.uid, false, s.kind == Kind::Dyn)),
        Item::Tl(t) => v.push((t.uid, true, false)),
        Item::Batch(b) if !b.multi => v.push((b.uid, false, false)),
        _ => {}
    });
    v
}

/// transitive dependents (same level) of every uid in `roots`, including dependents of enclosing batches
fn dependents(plan: &Plan, roots: &BTreeSet<u32>, out: &mut BTreeSet<u32>) {
    let rel = Relations::of(plan);
    for (i, u) in rel.units.iter().enumerate() {
        if rel.deps_tc[i].iter().any(|d| roots.contains(&rel.units[*d].uid)) {
            out.insert(u.uid);
            // everything inside a dependent batch must not run either
            if let Some(b) = plan.find_batch(u.uid) {
                b.inner.walk(&mut |x, _| match x {
                    Item::Sys(s) => {
                        out.insert(s.uid);
                    }
                    Item::Tl(t) => {
                        out.insert(t.uid);
                    }
                    Item::Batch(bb) => {
                        out.insert(bb.uid);
                    }
                    _ => {}
                });
            }
        }
    }
    for b in plan.batches() {
        dependents(&b.inner, roots, out);
    }
}

const PROFILES: [Profile; 7] = [Profile::Tiny, Profile::Dense, Profile::Mixed, Profile::Batchy, Profile::DepFans, Profile::DepChains, Profile::SparseWide];
const MODES: [DMode; 5] = [DMode::Dispatch, DMode::Dispatch, DMode::Par, DMode::Seq, DMode::SeqTl];

fn case(rng: &mut Rng, pools: &mut Pools, rep: &mut Report, case_no: u64) {
    let profile = *rng.pick(&PROFILES);
    let mut c = cfg_for(profile, rng);
    c.n = (c.n.0.min(3), c.n.1.min(14));
    if crate::props::sched::tiny() {
        c.n = (2, 4);
        c.max_batches = 1;
    }
    c.tl = (0, 2);
    c.p_dep = c.p_dep.max(25);
    let plan = gen_with(rng, &c);
    let pool_size = if crate::props::sched::tiny() { rng.range(1, 3) } else { *rng.pick(&POOL_SIZES) };
    let pool = pools.get(pool_size);
    let n_uids = plan.n_uids();
    let all = victims_of(&plan);
    if all.is_empty() {
        return;
    }
    let mut order = all.clone();
    rng.shuffle(&mut order);
    order.truncate(if crate::props::sched::tiny() { 2 } else { 6 });
    for (vi, &(victim, is_tl, is_dyn)) in order.iter().enumerate() {
        let mut m = *rng.pick(&MODES);
        if is_tl && !m.runs_tl() {
            m = DMode::Dispatch;
        }
        let mut inst = match build(&plan, Some(&pool), pool_size, 64) {
            Ok(i) => i,
            Err(e) => {
                rep.inconclusive += 1;
                rep.notes.push(format!("case {}: {}", case_no, e));
                return;
            }
        };
        rep.evaluations += 1;
        let ctx = inst.ctx.clone();
        // a warm-up dispatch so that the panic does not only ever hit a fresh dispatcher
        if rng.chance(1, 2) {
            let _ = inst.run_quiet(m);
        }
        let base = ctx.run_counts();
        let mut victims = vec![victim];
        // sometimes a second system panics too
        if rng.chance(1, 5) {
            if let Some(&(v2, tl2, _)) = all.iter().find(|x| x.0 != victim && (!x.1 || m.runs_tl())) {
                let _ = tl2;
                victims.push(v2);
            }
        }
        for v in &victims {
            let kind = if is_dyn && *v == victim && rng.chance(1, 4) { INJ_PANIC_FETCH } else { INJ_PANIC_RUN };
            ctx.inject[*v as usize].store(kind, SeqCst);
        }
        // phase control of the victim's stage siblings
        let mut chain = Vec::new();
        let phase_mode = rng.below(3) as u8;
        let mut driver: Arc<dyn Driver> = Arc::new(Jitter { seed: rng.next(), level: 0 });
        let mut phase: Option<Arc<Phase>> = None;
        let need = threads_needed(&inst.layout);
        if m.parallel() && pool_size >= need && !is_tl {
            if let Some((_, Some(l))) = find_level(&plan, &inst.layout, victim, &mut chain) {
                let pos = l.pos();
                if let Some(&(vs, vg, _)) = pos.get(&victim) {
                    let sibs: Vec<u32> = l.stages[vs]
                        .iter()
                        .enumerate()
                        .filter(|(gi, _)| *gi != vg)
                        .filter_map(|(_, g)| if phase_mode == 2 { g.last() } else { g.first() })
                        .cloned()
                        // a sibling that panics itself cannot be parked meaningfully
                        .filter(|u| !victims.contains(u))
                        .collect();
                    if !sibs.is_empty() {
                        let p = Arc::new(Phase {
                            victim,
                            sibs,
                            mode: phase_mode,
                            in_position: AtomicUsize::new(0),
                            cap: Duration::from_millis(400),
                            positioned: AtomicUsize::new(0),
                        });
                        phase = Some(p.clone());
                        driver = p;
                    }
                }
            }
        } else {
            let mut ch = Vec::new();
            let _ = find_level(&plan, &inst.layout, victim, &mut ch);
            chain = ch;
        }
        let dname = driver.name();
        // a third of the victims that live inside a (hand-written) batch controller: the controller
        // catches the panic of its inner dispatch and dispatches again in the same frame
        let in_hctl = chain.last().map_or(false, |b| plan.find_batch(*b).map_or(false, |bs| !bs.multi));
        let catching = in_hctl && victims.len() == 1 && rng.chance(1, 3);
        ctx.ctl_catches.store(catching, SeqCst);
        ctx.ctl_caught.store(0, SeqCst);
        let out = inst.run(m, driver);
        ctx.ctl_catches.store(false, SeqCst);
        for v in &victims {
            ctx.inject[*v as usize].store(INJ_NONE, SeqCst);
        }
        let _ = crate::sys::take_pool_panics();
        let mut problems: Vec<(String, String)> = Vec::new();
        if catching && ctx.ctl_caught.load(SeqCst) > 0 {
            rep.metric("panics_caught_by_a_batch_controller", 1);
            if let Some(p) = &out.panic {
                problems.push(("panic_after_controller_retry".into(), format!("a batch controller caught the inner panic and dispatched again; that second inner dispatch (or the rest of the outer dispatch) panicked: {}", p)));
            }
            for v in ctx.take_violations() {
                if let Some(m) = v.strip_prefix("c14: ") {
                    problems.push(("controller_retry_not_exactly_once".into(), m.to_string()));
                }
            }
            for s in Slot::all() {
                let p = probe(&inst.world, s);
                if p != Probe::Free {
                    problems.push(("borrow_leaked".into(), format!("after the controller's retry, {} is still {:?}", s.label(), p)));
                    break;
                }
            }
            if problems.is_empty() {
                let before = ctx.run_counts();
                let out2 = inst.run(m, Arc::new(Free));
                if let Some(p) = &out2.panic {
                    problems.push(("next_dispatch_panicked".into(), format!("the dispatch after a controller-caught panic panicked: {}", p)));
                } else {
                    let e1 = expected_counts(&plan, m, n_uids);
                    let now = ctx.run_counts();
                    for u in 1..n_uids {
                        if now[u] - before[u] != e1[u] {
                            problems.push(("next_dispatch_not_exactly_once".into(), format!("in the dispatch after a controller-caught panic u{} ran {} times, expected {}", u, now[u] - before[u], e1[u])));
                            break;
                        }
                    }
                }
            }
            let _ = ctx.take_violations();
            let mut seen = BTreeSet::new();
            for (k, msg) in &problems {
                if seen.insert(k.clone()) {
                    rep.violation(k, msg, case_no, J::obj().set("plan", plan.to_json()).set("layout", inst.layout.to_json()).set("victims", J::from(victims.clone())).set("mode", m.name()).set("pool", pool_size));
                }
            }
            rep.nontrivial(mix(mix(plan.hash(), victim as u64), 0xca7c4));
            continue;
        }
        let fired: Vec<u32> = victims.iter().cloned().filter(|v| ctx.fired[*v as usize].load(SeqCst) > 0).collect();
        rep.metric("panic_dispatches", 1);
        rep.metric(&format!("mode_{}", m.name().replace('+', "_")), 1);
        if let Some(p) = &phase {
            if p.positioned.load(SeqCst) == 1 {
                rep.metric(&format!("phase_{}_positioned", ["before", "inside", "after"][phase_mode as usize]), 1);
            } else {
                rep.metric("phase_not_positioned", 1);
            }
        }
        if fired.is_empty() {
            // the victim was never reached (e.g. inside a batch with k = 0): nothing to judge
            rep.metric("victim_not_reached", 1);
            if out.panic.is_some() {
                problems.push(("panic_without_injection".into(), format!("dispatch panicked although no injected panic fired: {:?}", out.panic)));
            }
        } else {
            match &out.panic {
                None => problems.push(("panic_swallowed".into(), format!("u{:?} panicked inside {} but the call returned normally", fired, m.name()))),
                Some(p) => {
                    let ok = fired.iter().any(|v| p.starts_with(&format!("INJECTED-PANIC uid={} ", v)));
                    if !ok {
                        problems.push(("foreign_payload".into(), format!("the panic that reached the caller carries {:?}, not the payload of a panicking system {:?}", p, fired)));
                    }
                }
            }
            // dependents of what panicked (and of the batches it propagated through) did not run
            let mut roots: BTreeSet<u32> = fired.iter().cloned().collect();
            if fired.contains(&victim) {
                roots.extend(chain.iter().cloned());
            }
            let mut deps = BTreeSet::new();
            dependents(&plan, &roots, &mut deps);
            let now = ctx.run_counts();
            let full = expected_counts(&plan, m, n_uids);
            for u in 1..n_uids {
                let ran = now[u] - base[u];
                if deps.contains(&(u as u32)) && ran > 0 && !roots.contains(&(u as u32)) {
                    problems.push(("dependent_ran".into(), format!("u{} depends (transitively) on the panicking u{:?} and still ran {} time(s) in that dispatch", u, roots, ran)));
                }
                if ran > full[u] {
                    problems.push(("ran_more_than_once".into(), format!("u{} ran {} times in the panicking dispatch (at most {} expected)", u, ran, full[u])));
                }
            }
            rep.metric("dependents_watched", deps.len() as i64);
        }
        // nothing is left borrowed
        for s in Slot::all() {
            let p = probe(&inst.world, s);
            if p != Probe::Free {
                problems.push(("borrow_leaked".into(), format!("after the panic was caught, {} is still {:?}", s.label(), p)));
                break;
            }
        }
        // the next dispatch is a perfectly normal one
        if problems.is_empty() {
            let before = ctx.run_counts();
            let out2 = inst.run(m, Arc::new(Free));
            if let Some(p) = &out2.panic {
                problems.push(("next_dispatch_panicked".into(), format!("the dispatch after the caught panic panicked: {}", p)));
            } else {
                let e1 = expected_counts(&plan, m, n_uids);
                let now = ctx.run_counts();
                for u in 1..n_uids {
                    if now[u] - before[u] != e1[u] {
                        problems.push(("next_dispatch_not_exactly_once".into(), format!("in the dispatch after the caught panic u{} ran {} times, expected {}", u, now[u] - before[u], e1[u])));
                        break;
                    }
                }
                if !out2.overflow {
                    let mut f = Vec::new();
                    let opts = EOpts { expect_tl: m.runs_tl(), caller_thread: out2.caller, outer_mode: m.outer() , top_mult: 1, partial: false, tl_mult: None};
                    let _ = e_oracle(&plan, &out2.events, &opts, &mut f);
                    for x in f {
                        if x.is("C04") || x.is("C01") || x.is("C02") {
                            problems.push(("next_dispatch_disordered".into(), format!("dispatch after the caught panic: {}", x.msg)));
                            break;
                        }
                    }
                }
            }
        }
        let _ = ctx.take_violations();
        let mut seen = BTreeSet::new();
        for (k, msg) in &problems {
            if seen.insert(k.clone()) {
                rep.violation(
                    k,
                    msg,
                    case_no,
                    J::obj()
                        .set("plan", plan.to_json())
                        .set("layout", inst.layout.to_json())
                        .set("victims", J::from(victims.clone()))
                        .set("mode", m.name())
                        .set("pool", pool_size)
                        .set("driver", dname.as_str()),
                );
            }
        }
        let rel = Relations::of(&plan);
        let has_dependent = (0..rel.units.len()).any(|y| rel.deps_tc[y].iter().any(|d| rel.units[*d].uid == victim));
        let has_sibling = phase.is_some();
        if !fired.is_empty() && (has_dependent || has_sibling) {
            rep.nontrivial(mix(mix(plan.hash(), victim as u64), mix(phase_mode as u64, m as u64)));
        }
        if rep.samples.len() < rep.max_samples && !fired.is_empty() && has_sibling && plan.n_systems_total() < 12 {
            rep.sample(
                J::obj()
                    .set("case", case_no)
                    .set("plan", plan.to_json())
                    .set("layout", inst.layout.to_json())
                    .set("victims", J::from(victims.clone()))
                    .set("fired", J::from(fired.clone()))
                    .set("mode", m.name())
                    .set("pool", pool_size)
                    .set("driver", dname.as_str())
                    .set("payload", out.panic.clone().unwrap_or_default())
                    .set("run_counts_after", J::from(ctx.run_counts()[1..].to_vec())),
            );
        }
        let _ = vi;
    }
}

/// A dispatcher that went through one caught panic is used for more than 2^16 further dispatches:
/// every one of them runs every system exactly once.
fn case_soak(rng: &mut Rng, pools: &mut Pools, rep: &mut Report, case_no: u64) {
    let mut c = cfg_for(Profile::Tiny, rng);
    c.n = (3, 6);
    c.p_dep = 30;
    c.p_static = 0;
    c.tl = (0, 1);
    let plan = gen_with(rng, &c);
    let pool_size = rng.range(2, 4);
    let pool = pools.get(pool_size);
    let all = victims_of(&plan);
    if all.is_empty() {
        return;
    }
    let m = if rng.chance(1, 2) { DMode::Dispatch } else { DMode::Par };
    let cands: Vec<u32> = all.iter().filter(|x| !x.1).map(|x| x.0).collect();
    if cands.is_empty() {
        return;
    }
    let victim = *rng.pick(&cands);
    let mut inst = match build(&plan, Some(&pool), pool_size, 64) {
        Ok(i) => i,
        Err(_) => {
            rep.inconclusive += 1;
            return;
        }
    };
    rep.evaluations += 1;
    let ctx = inst.ctx.clone();
    for _ in 0..rng.range(0, 3) {
        let _ = inst.run_quiet(m);
    }
    ctx.inject[victim as usize].store(INJ_PANIC_RUN, SeqCst);
    let p = inst.run_quiet(m);
    ctx.inject[victim as usize].store(INJ_NONE, SeqCst);
    let _ = crate::sys::take_pool_panics();
    let _ = ctx.take_violations();
    if p.is_none() {
        // the injected panic did not surface: the ordinary cases report that
        rep.metric("other_property_findings", 1);
        return;
    }
    let n = 65_536 + rng.range(2, 40);
    rep.metric("soak_histories", 1);
    match soak(&mut inst, m, n) {
        Some((i, msg)) => rep.violation(
            "not_reusable_after_panic:long_history",
            &format!("after one caught panic (u{} in {}) the dispatcher was used again: {}", victim, m.name(), msg),
            case_no,
            J::obj().set("plan", plan.to_json()).set("pool", pool_size).set("calls_after_the_panic", i + 1),
        ),
        None => {
            rep.metric("soak_dispatches", n as i64);
            rep.nontrivial(mix(plan.hash(), 0x50a6 + n as u64));
        }
    }
}

pub fn run(args: &Args) -> i32 {
    let mut rep = Report::new(args);
    let mut pools = Pools::new();
    if args.has("--tiny") {
        crate::props::sched::TINY.store(true, SeqCst);
    }
    let n = args.count(5_120, 64_000);
    let range: Vec<u64> = match args.case {
        Some(c) => vec![c],
        None => (0..n).collect(),
    };
    for c in range {
        if rep.time_up() {
            break;
        }
        let mut rng = Rng::new(args.case_seed(c));
        if c % 400 == 7 && !crate::props::sched::tiny() && cfg!(feature = "parallel") {
            guard_case(&mut rep, c, |rep| case_soak(&mut rng, &mut pools, rep, c));
            continue;
        }
        guard_case(&mut rep, c, |rep| case(&mut rng, &mut pools, rep, c));
    }
    rep.finish();
    0
}
