//! C13 – setup and dispose reach every system once; setup never clobbers.

use std::collections::BTreeMap;
use std::panic::{catch_unwind, AssertUnwindSafe};
use std::sync::atomic::Ordering::SeqCst;
use std::sync::Arc;

use shred::World;

use crate::ctx::*;
use crate::exec::plan_runs;
use crate::gen::*;
use crate::json::J;
use crate::plan::*;
use crate::report::*;
use crate::res::*;
use crate::rng::{mix, Rng};
use crate::sys::{instantiate, Pool};

/// Slots a static menu entry creates in `setup` (only the default-providing accessors do).
pub fn menu_creates(id: u8) -> Vec<Slot> {
    let s = |t: usize| Slot::new(t, 0);
    match id {
        0 => vec![],
        1 => vec![s(0)],
        2 => vec![s(1)],
        3 => vec![s(0), s(2)],
        4 => vec![],          // ReadExpect / WriteExpect
        5 => vec![],          // Option<..>
        6 => vec![s(2), s(6)],
        7 => vec![s(0), s(1), s(7)],
        8 => vec![s(0)],
        9 => vec![s(3), s(4)],
        10 => vec![s(5), s(6), s(7)],
        11 => vec![s(2)],     // Write + Option<Read>
        12 => vec![s(7)],
        13 => vec![s(5), s(1)],
        14 => vec![s(4), s(0)],
        15 => vec![s(2)],     // Read + Option<Read>
        16 => vec![s(6)],
        _ => panic!("menu id"),
    }
}

/// Every slot that must exist after setup: library-made (static systems, controllers' declared
/// data) and harness-made (dynamic and thread-local systems insert their own defaults).
fn created_by_setup(plan: &Plan, out: &mut BTreeMap<Slot, &'static str>) {
    plan.walk(&mut |it, _| match it {
        Item::Sys(s) => match s.kind {
            Kind::Static(m) => {
                for sl in menu_creates(m) {
                    out.entry(sl).or_insert("library");
                }
            }
            Kind::Dyn => {
                for sl in s.reads.iter().chain(s.writes.iter()) {
                    out.entry(*sl).or_insert("harness");
                }
            }
        },
        Item::Batch(b) => {
            for sl in menu_creates(b.ctl_menu) {
                out.insert(sl, "library");
            }
        }
        Item::Tl(t) => {
            for sl in t.reads.iter().chain(t.writes.iter()) {
                out.entry(*sl).or_insert("harness");
            }
        }
        Item::Barrier | Item::Failed(_) => {}
    });
}

fn all_uids(plan: &Plan) -> Vec<(u32, &'static str)> {
    let mut v = Vec::new();
    plan.walk(&mut |it, d| match it {
        Item::Sys(s) => v.push((s.uid, if d > 0 { "system inside a batch" } else { "system" })),
        Item::Tl(t) => v.push((t.uid, if d > 0 { "thread-local system inside a batch" } else { "thread-local system" })),
        _ => {}
    });
    v
}

const PROFILES: [Profile; 6] = [Profile::Batchy, Profile::Batchy, Profile::Mixed, Profile::Tiny, Profile::Dense, Profile::DepFans];

fn snapshot(w: &World) -> Vec<Option<(u64, u64, u64, u64)>> {
    Slot::all().map(|s| slot_value(w, s)).collect()
}

fn case(rng: &mut Rng, pool: &Pool, rep: &mut Report, case_no: u64) {
    let profile = *rng.pick(&PROFILES);
    let mut c = cfg_for(profile, rng);
    c.tl = (0, 3);
    c.p_static = c.p_static.max(35);
    if profile == Profile::Batchy {
        c.p_batch = 45;
        c.depth_left = rng.range(1, 3);
    }
    let plan = gen_with(rng, &c);
    rep.evaluations += 1;
    rep.metric(&format!("profile_{}", profile.name()), 1);
    let (ev, _) = plan_runs(&plan);
    let ctx = Ctx::new(plan.n_uids().max(1), ev + 16);
    let mut disp = match catch_unwind(AssertUnwindSafe(|| instantiate(&plan, &ctx, Some(pool)).build())) {
        Ok(d) => d,
        Err(p) => {
            rep.inconclusive += 1;
            rep.notes.push(format!("case {}: builder panicked: {}", case_no, payload_str(&*p)));
            return;
        }
    };
    // ---- a world in which a random subset of the slots already exists with sentinel values ----
    let mut world = World::empty();
    let mut pre = 0usize;
    let density = rng.below(4);
    for s in Slot::all() {
        if rng.below(4) < density {
            insert_slot(&mut world, s, 0xfeed_0000 + rng.next() % 0xffff);
            pre += 1;
        }
    }
    let mut must = BTreeMap::new();
    created_by_setup(&plan, &mut must);
    let uids = all_uids(&plan);
    let mut problems: Vec<(String, String)> = Vec::new();
    let rounds = rng.range(1, 3);
    let mut history = Vec::new();
    let mut faulted_base: Option<(Vec<u32>, usize)> = None;
    for round in 1..=rounds {
        let before = snapshot(&world);
        // the inherent method, or the same through the `RunNow` impl of the dispatcher (how a
        // dispatcher nested in another object is driven)
        let via_trait = rng.chance(1, 2);
        let unwinding = rng.chance(1, 10);
        let r: Result<(), String> = if unwinding {
            // from a cleanup guard while the thread unwinds from an unrelated panic
            during_unwind(|| disp.setup(&mut world))
        } else {
            catch_unwind(AssertUnwindSafe(|| {
                if via_trait {
                    shred::RunNow::setup(&mut disp, &mut world)
                } else {
                    disp.setup(&mut world)
                }
            }))
            .map_err(|p| payload_str(&*p))
        };
        history.push(format!("setup#{}{}", round, if unwinding { " (from a destructor during unwinding)" } else if via_trait { " (RunNow::setup)" } else { "" }));
        if let Err(p) = r {
            problems.push(("setup_panicked".into(), format!("setup panicked: {}", p)));
            break;
        }
        let after = snapshot(&world);
        for (k, (u, what)) in uids.iter().enumerate() {
            let n = ctx.setups[*u as usize].load(SeqCst);
            // (after a setup call that was cut short by a panicking hook the counters were re-based)
            let want = match &faulted_base {
                Some((base, at_round)) => base[k] + (round - at_round) as u32,
                None => round as u32,
            };
            if n != want {
                problems.push((
                    if n < want { "setup_missed".into() } else { "setup_repeated".into() },
                    format!("after {} complete setup call(s){} the {} u{} has been set up {} times, {} expected", round, if faulted_base.is_some() { " (and one that a panicking hook cut short)" } else { "" }, what, u, n, want),
                ));
            }
        }
        for (i, s) in Slot::all().enumerate() {
            match (&before[i], &after[i]) {
                (Some(b), Some(a)) if a != b => problems.push(("setup_clobbered".into(), format!("setup changed the pre-existing resource {}: {:x?} -> {:x?}", s.label(), b, a))),
                (Some(_), None) => problems.push(("setup_removed".into(), format!("setup removed the resource {}", s.label()))),
                (None, Some(a)) => match must.get(&s) {
                    None => problems.push(("setup_created_unexpected".into(), format!("setup created {} although only optional / expecting accessors (or nothing) refer to it", s.label()))),
                    Some(_) => {
                        if *a != (0, 0, 0, 0) {
                            problems.push(("setup_created_non_default".into(), format!("setup created {} with a non-default value {:x?}", s.label(), a)));
                        }
                    }
                },
                (None, None) => {
                    if let Some(who) = must.get(&s) {
                        problems.push((
                            format!("setup_did_not_create:{}", who),
                            format!("after setup the resource {} does not exist although a default-providing accessor ({} side) refers to it", s.label(), who),
                        ));
                    }
                }
                _ => {}
            }
        }
        // between setup rounds the dispatcher is used: a dispatch that completes, or one in which
        // a system (ordinary, thread-local, inside a batch) panics - the caller catches it. Every
        // system is still there for the next setup and for dispose.
        if round < rounds && rng.chance(1, 2) {
            let victim = if rng.chance(2, 3) && !uids.is_empty() { Some(uids[rng.below(uids.len())].0) } else { None };
            if let Some(v) = victim {
                ctx.inject[v as usize].store(INJ_PANIC_RUN, SeqCst);
            }
            ctx.set_mode(Mode::Quiet);
            let seq = rng.chance(1, 3);
            let r = catch_unwind(AssertUnwindSafe(|| {
                if seq {
                    disp.dispatch_seq(&world);
                    disp.dispatch_thread_local(&world);
                } else {
                    disp.dispatch(&world);
                }
            }));
            ctx.set_mode(Mode::Build);
            if let Some(v) = victim {
                ctx.inject[v as usize].store(INJ_NONE, SeqCst);
            }
            let _ = crate::sys::take_pool_panics();
            let _ = ctx.take_violations();
            if r.is_err() {
                rep.metric("dispatches_that_panicked_between_setups", 1);
            }
            history.push(format!("dispatch{} ({})", if seq { "_seq + thread-local" } else { "" }, if r.is_err() { "panicked, caught" } else { "completed" }));
        }
        // a setup call in which one system's own setup hook panics (the caller catches it, repairs
        // nothing, and goes on): it is not counted as a round - but nothing is lost by it: the next
        // setup call and dispose still reach every system
        if round < rounds && rng.chance(1, 6) {
            let dyn_uids: Vec<u32> = {
                let mut v = Vec::new();
                plan.walk(&mut |it, _| match it {
                    Item::Sys(s) if s.kind == Kind::Dyn => v.push(s.uid),
                    Item::Tl(t) => v.push(t.uid),
                    _ => {}
                });
                v
            };
            if !dyn_uids.is_empty() {
                let v = dyn_uids[rng.below(dyn_uids.len())];
                ctx.inject[v as usize].store(INJ_PANIC_SETUP, SeqCst);
                let r = catch_unwind(AssertUnwindSafe(|| disp.setup(&mut world)));
                ctx.inject[v as usize].store(INJ_NONE, SeqCst);
                history.push(format!("setup in which the setup hook of u{} panics ({})", v, if r.is_err() { "caught" } else { "no panic surfaced" }));
                // whatever that call reached, it reached: counters are re-based
                faulted_base = Some((uids.iter().map(|(u, _)| ctx.setups[*u as usize].load(SeqCst)).collect(), round));
                rep.metric("setup_calls_with_a_panicking_hook", 1);
            }
        }
        // interleave inserts / removes between setup rounds
        if round < rounds {
            for _ in 0..rng.range(0, 4) {
                let s = Slot::new(rng.below(NTYPES), rng.below(NDYN));
                if rng.chance(1, 2) {
                    remove_slot(&mut world, s);
                    history.push(format!("remove {}", s.label()));
                } else {
                    insert_slot(&mut world, s, 0xabcd_0000 + rng.next() % 0xffff);
                    history.push(format!("insert {}", s.label()));
                }
            }
        }
    }
    // ---- dispose hands every system to its hook exactly once ----
    if problems.iter().all(|p| p.0 != "setup_panicked") {
        let via_trait = rng.chance(1, 2);
        let unwinding = rng.chance(1, 6);
        let r: Result<(), String> = if unwinding {
            during_unwind(|| disp.dispose(&mut world))
        } else {
            catch_unwind(AssertUnwindSafe(|| {
                if via_trait {
                    let boxed: Box<shred::Dispatcher<'static, 'static>> = Box::new(disp);
                    shred::RunNow::dispose(boxed, &mut world)
                } else {
                    disp.dispose(&mut world)
                }
            }))
            .map_err(|p| payload_str(&*p))
        };
        history.push(if unwinding { "dispose (from a destructor during unwinding)".into() } else if via_trait { "dispose (RunNow::dispose on the boxed dispatcher)".into() } else { "dispose".into() });
        match r {
            Err(p) => problems.push(("dispose_panicked".into(), format!("dispose panicked: {}", p))),
            Ok(()) => {
                for (u, what) in &uids {
                    let n = ctx.disposes[*u as usize].load(SeqCst);
                    if n != 1 {
                        let inside = what.contains("inside a batch");
                        problems.push((
                            format!("{}{}", if n == 0 { "dispose_missed" } else { "dispose_repeated" }, if inside { ":inside_batch" } else { "" }),
                            format!("after dispose the {} u{} has been disposed {} times", what, u, n),
                        ));
                    }
                }
            }
        }
    }
    let mut seen = std::collections::BTreeSet::new();
    for (k, m) in &problems {
        if seen.insert(k.clone()) {
            rep.violation(k, m, case_no, J::obj().set("plan", plan.to_json()).set("history", J::from(history.clone())).set("pre_existing", pre));
        }
    }
    rep.metric("systems_checked", uids.len() as i64);
    rep.metric("setup_rounds", rounds as i64);
    rep.metric("pre_existing_resources", pre as i64);
    let has_inner = uids.iter().any(|u| u.1.contains("inside") || u.1.contains("thread-local"));
    if has_inner && pre > 0 {
        rep.nontrivial(mix(plan.hash(), mix(pre as u64, density as u64)));
    }
    if rep.samples.len() < rep.max_samples && has_inner && pre > 0 && plan.n_systems_total() < 12 {
        rep.sample(
            J::obj()
                .set("case", case_no)
                .set("plan", plan.to_json())
                .set("pre_existing", pre)
                .set("history", J::from(history.clone()))
                .set("setup_counts", J::from(uids.iter().map(|u| ctx.setups[u.0 as usize].load(SeqCst)).collect::<Vec<_>>()))
                .set("dispose_counts", J::from(uids.iter().map(|u| ctx.disposes[u.0 as usize].load(SeqCst)).collect::<Vec<_>>())),
        );
    }
}

/// The async dispatcher's setup: same exactly-once and no-clobber rules.
#[cfg(feature = "parallel")]
fn case_async(rng: &mut Rng, pool: &Pool, rep: &mut Report, case_no: u64) {
    let mut c = cfg_for(Profile::Mixed, rng);
    c.tl = (0, 2);
    c.p_static = 40;
    let plan = gen_with(rng, &c);
    rep.evaluations += 1;
    rep.metric("async_setup_cases", 1);
    let ctx = Ctx::new(plan.n_uids().max(1), 64);
    let b = match catch_unwind(AssertUnwindSafe(|| instantiate(&plan, &ctx, Some(pool)))) {
        Ok(b) => b,
        Err(_) => {
            rep.inconclusive += 1;
            return;
        }
    };
    let mut world = World::empty();
    let mut pre = 0;
    for s in Slot::all() {
        if rng.chance(1, 3) {
            insert_slot(&mut world, s, 0xfeed_0000 + s.0 as u64);
            pre += 1;
        }
    }
    let before = snapshot(&world);
    let mut ad = b.build_async(world);
    ad.setup();
    let after = snapshot(ad.world());
    let mut must = BTreeMap::new();
    created_by_setup(&plan, &mut must);
    for (u, what) in all_uids(&plan) {
        let n = ctx.setups[u as usize].load(SeqCst);
        if n != 1 {
            rep.violation("async_setup_count", &format!("AsyncDispatcher::setup: {} u{} set up {} times", what, u, n), case_no, J::obj().set("plan", plan.to_json()));
            break;
        }
    }
    // a setup call in which one system's own setup hook panics (caught), then setup again: the
    // second call reaches every system, ordinary ones included
    let faulted = rng.chance(1, 4);
    if faulted {
        let cands: Vec<u32> = {
            let mut v = Vec::new();
            plan.walk(&mut |it, d| match it {
                Item::Sys(s) if s.kind == Kind::Dyn && d == 0 => v.push(s.uid),
                Item::Tl(t) if d == 0 => v.push(t.uid),
                _ => {}
            });
            v
        };
        if let Some(&v) = cands.get(rng.below(cands.len().max(1))) {
            ctx.inject[v as usize].store(INJ_PANIC_SETUP, SeqCst);
            let r = catch_unwind(AssertUnwindSafe(|| ad.setup()));
            ctx.inject[v as usize].store(INJ_NONE, SeqCst);
            rep.metric("async_setup_calls_with_a_panicking_hook", 1);
            let uids = all_uids(&plan);
            let base: Vec<u32> = uids.iter().map(|(u, _)| ctx.setups[*u as usize].load(SeqCst)).collect();
            match catch_unwind(AssertUnwindSafe(|| ad.setup())) {
                Err(p) => {
                    rep.violation("setup_panicked", &format!("AsyncDispatcher::setup after a setup call in which a hook had panicked ({}) panicked: {}", if r.is_err() { "caught" } else { "not surfaced" }, payload_str(&*p)), case_no, J::obj().set("plan", plan.to_json()));
                    return;
                }
                Ok(()) => {
                    for (k, (u, what)) in uids.iter().enumerate() {
                        let n = ctx.setups[*u as usize].load(SeqCst);
                        if n != base[k] + 1 {
                            rep.violation(
                                if n < base[k] + 1 { "setup_missed" } else { "setup_repeated" },
                                &format!("AsyncDispatcher: the setup hook of u{} panicked during one setup call (caught); the next setup call reached the {} u{} {} times", v, what, u, n - base[k]),
                                case_no,
                                J::obj().set("plan", plan.to_json()),
                            );
                            return;
                        }
                    }
                }
            }
        }
    }
    // setup while a dispatch is in flight (one system is parked inside run; a helper lets it go
    // once this thread is about to block): it waits for the dispatch and then reaches everything
    let in_flight = !faulted && rng.chance(1, 3);
    if in_flight {
        use crate::props::c15::Latch;
        use std::sync::atomic::AtomicBool;
        use std::time::{Duration, Instant};
        for s in Slot::all() {
            if !ad.world().has_value_raw(s.rid()) {
                insert_slot(ad.world_mut(), s, 0xfeed_2000 + s.0 as u64);
            }
        }
        let tops: Vec<u32> = plan.items.iter().filter_map(|i| if let Item::Sys(s) = i { Some(s.uid) } else { None }).collect();
        if let Some(&target) = tops.first() {
            let latch = Arc::new(Latch::new(target, Duration::from_secs(8)));
            ctx.arm(latch.clone());
            ctx.set_mode(Mode::Run);
            ad.dispatch();
            let entered = wait_until(Instant::now() + Duration::from_secs(8), || latch.entered.load(SeqCst));
            let about = AtomicBool::new(false);
            let r = std::thread::scope(|s| {
                s.spawn(|| {
                    wait_until(Instant::now() + Duration::from_secs(8), || about.load(SeqCst));
                    std::thread::sleep(Duration::from_micros(400));
                    latch.open.store(true, SeqCst);
                });
                about.store(true, SeqCst);
                catch_unwind(AssertUnwindSafe(|| ad.setup()))
            });
            ctx.set_mode(Mode::Build);
            ctx.disarm();
            let _ = ctx.take_violations();
            if !entered || latch.timed_out.load(SeqCst) {
                rep.inconclusive += 1;
                return;
            }
            rep.metric("async_setups_while_a_dispatch_is_in_flight", 1);
            if let Err(p) = r {
                rep.violation("setup_panicked", &format!("AsyncDispatcher::setup called while a dispatch is in flight panicked: {}", payload_str(&*p)), case_no, J::obj().set("plan", plan.to_json()));
                return;
            }
            for (u, what) in all_uids(&plan) {
                let n = ctx.setups[u as usize].load(SeqCst);
                if n != 2 {
                    rep.violation(
                        if n < 2 { "setup_missed" } else { "setup_repeated" },
                        &format!("AsyncDispatcher::setup was called a second time while a dispatch was in flight: the {} u{} has been set up {} times in all", what, u, n),
                        case_no,
                        J::obj().set("plan", plan.to_json()),
                    );
                    return;
                }
            }
            ad.wait();
        }
    }
    // the dispatcher is used (every resource exists now), a thread-local system may panic in
    // `wait` - the caller catches it - and setup is called again: it still reaches everything
    if !in_flight && !faulted && rng.chance(1, 2) {
        for s in Slot::all() {
            if !ad.world().has_value_raw(s.rid()) {
                insert_slot(ad.world_mut(), s, 0xfeed_1000 + s.0 as u64);
            }
        }
        let tls = plan.tls();
        let victim = if rng.chance(2, 3) && !tls.is_empty() { Some(tls[rng.below(tls.len())].uid) } else { None };
        if let Some(v) = victim {
            ctx.inject[v as usize].store(INJ_PANIC_RUN, SeqCst);
        }
        ctx.set_mode(Mode::Quiet);
        ad.dispatch();
        let r = catch_unwind(AssertUnwindSafe(|| ad.wait()));
        ctx.set_mode(Mode::Build);
        if let Some(v) = victim {
            ctx.inject[v as usize].store(INJ_NONE, SeqCst);
        }
        let _ = ctx.take_violations();
        if r.is_err() {
            rep.metric("async_waits_that_panicked_between_setups", 1);
        }
        if victim.is_none() && r.is_err() {
            // nothing was injected: not this property's business
            rep.metric("other_property_findings", 1);
            return;
        }
        let r2 = catch_unwind(AssertUnwindSafe(|| ad.setup()));
        if let Err(p) = r2 {
            rep.violation("setup_panicked", &format!("AsyncDispatcher::setup after a {} dispatch panicked: {}", if r.is_err() { "panicking" } else { "completed" }, payload_str(&*p)), case_no, J::obj().set("plan", plan.to_json()));
            return;
        }
        for (u, what) in all_uids(&plan) {
            let n = ctx.setups[u as usize].load(SeqCst);
            if n != 2 {
                rep.violation(
                    if n < 2 { "setup_missed" } else { "setup_repeated" },
                    &format!("AsyncDispatcher: after two setup calls (a dispatch+wait {} in between) the {} u{} has been set up {} times", if r.is_err() { "in which a thread-local system panicked" } else { "that completed" }, what, u, n),
                    case_no,
                    J::obj().set("plan", plan.to_json()),
                );
                break;
            }
        }
    }
    for (i, s) in Slot::all().enumerate() {
        match (&before[i], &after[i]) {
            (Some(b), Some(a)) if a != b => rep.violation("setup_clobbered", &format!("AsyncDispatcher::setup changed {}", s.label()), case_no, J::Null),
            (None, None) if must.contains_key(&s) => rep.violation("setup_did_not_create:async", &format!("AsyncDispatcher::setup did not create {}", s.label()), case_no, J::Null),
            (None, Some(_)) if !must.contains_key(&s) => rep.violation("setup_created_unexpected", &format!("AsyncDispatcher::setup created {}", s.label()), case_no, J::Null),
            _ => {}
        }
    }
    if pre > 0 && !plan.tls().is_empty() {
        rep.nontrivial(mix(plan.hash(), 0xa5));
    }
}

// ------------------------------------------------------------------------------------------------
// Setup of declared data that names no resource (seeded change C13k)
// ------------------------------------------------------------------------------------------------

/// Replay id of the probe below (outside the range of generated cases).
pub const NORES_CASE: u64 = 1 << 40;

static NORES_SETUPS: [std::sync::atomic::AtomicU32; 5] = [
    std::sync::atomic::AtomicU32::new(0),
    std::sync::atomic::AtomicU32::new(0),
    std::sync::atomic::AtomicU32::new(0),
    std::sync::atomic::AtomicU32::new(0),
    std::sync::atomic::AtomicU32::new(0),
];

/// The resource `NoRes<I>::setup` creates; it is fetched lazily by hand, hence not declared.
#[derive(Default)]
struct NoResMark<const I: usize>(u32);

/// A user-written system data that declares no reads and no writes but whose `setup` has an
/// effect (it registers a resource that is looked up on demand). The property demands that the
/// setup of every registered system's / controller's declared data is called, whatever it names.
struct NoRes<'a, const I: usize>(std::marker::PhantomData<&'a ()>);

impl<'a, const I: usize> shred::SystemData<'a> for NoRes<'a, I> {
    fn setup(world: &mut World) {
        NORES_SETUPS[I].fetch_add(1, SeqCst);
        world.entry::<NoResMark<I>>().or_insert_with(|| NoResMark(7));
    }
    fn fetch(_: &'a World) -> Self {
        NoRes(std::marker::PhantomData)
    }
    fn reads() -> Vec<shred::ResourceId> {
        vec![]
    }
    fn writes() -> Vec<shred::ResourceId> {
        vec![]
    }
}

struct NoResSys<const I: usize>;
impl<'a, const I: usize> shred::System<'a> for NoResSys<I> {
    type SystemData = (NoRes<'a, I>, ());
    fn run(&mut self, _: Self::SystemData) {}
}

struct NoResCtl<const I: usize>;
impl<'a, 'b, 'c, const I: usize> shred::BatchController<'a, 'b, 'c> for NoResCtl<I> {
    type BatchSystemData = NoRes<'c, I>;
    fn run(&mut self, world: &'c World, dispatcher: &mut shred::Dispatcher<'a, 'b>) {
        let _d: NoRes<'c, I> = world.system_data();
        dispatcher.dispatch(world);
    }
}

struct NoResMulti<const I: usize>;
impl<'a, const I: usize> shred::MultiDispatchController<'a> for NoResMulti<I> {
    type SystemData = (NoRes<'a, I>,);
    fn plan(&mut self, _: Self::SystemData) -> usize {
        2
    }
}

/// Builds  sys(0) ; batch ctl(1) { sys(2) ; multi-batch ctl(3) { sys(4) } }  (optionally with a
/// thread-local system using data 0 too), sets it up `j` times and compares the number of setup
/// calls of each declared data with the number of registered users.
fn case_nores(rep: &mut Report) {
    use shred::DispatcherBuilder;
    static LOCK: std::sync::Mutex<()> = std::sync::Mutex::new(());
    let _g = LOCK.lock().unwrap_or_else(|e| e.into_inner());
    for variant in 0..6u32 {
        let with_tl = variant % 2 == 1;
        let asyncd = variant >= 4;
        let j = 1 + variant % 3;
        let inner2 = DispatcherBuilder::new().with(NoResSys::<4>, "s4", &[]);
        let inner1 = DispatcherBuilder::new()
            .with(NoResSys::<2>, "s2", &[])
            .with_batch(shred::MultiDispatcher::new(NoResMulti::<3>), inner2, "b3", &["s2"]);
        let mut b = DispatcherBuilder::new().with(NoResSys::<0>, "s0", &[]).with_batch(NoResCtl::<1>, inner1, "b1", &[]);
        if with_tl && !asyncd {
            b = b.with_thread_local(NoResSys::<0>);
        }
        let users: [u32; 5] = [if with_tl && !asyncd { 2 } else { 1 }, 1, 1, 1, 1];
        let before: Vec<u32> = NORES_SETUPS.iter().map(|a| a.load(SeqCst)).collect();
        let mut present = [false; 5];
        let mut b = Some(b);
        #[cfg(feature = "parallel")]
        if asyncd {
            let mut d = b.take().unwrap().build_async(World::empty());
            for _ in 0..j {
                d.setup();
            }
            d.dispatch();
            d.wait();
            let w = d.world();
            present = [w.has_value::<NoResMark<0>>(), w.has_value::<NoResMark<1>>(), w.has_value::<NoResMark<2>>(), w.has_value::<NoResMark<3>>(), w.has_value::<NoResMark<4>>()];
        }
        if let Some(b) = b.take() {
            let mut w = World::empty();
            let mut d = b.build();
            for _ in 0..j {
                d.setup(&mut w);
            }
            d.dispatch(&w);
            present = [w.has_value::<NoResMark<0>>(), w.has_value::<NoResMark<1>>(), w.has_value::<NoResMark<2>>(), w.has_value::<NoResMark<3>>(), w.has_value::<NoResMark<4>>()];
        }
        const WHO: [&str; 5] = ["an ordinary (and a thread-local) system", "a batch controller", "a system inside a batch", "a multi-dispatch controller inside a batch", "a system inside a batch inside a batch"];
        for i in 0..5 {
            let got = NORES_SETUPS[i].load(SeqCst) - before[i];
            let want = users[i] * j;
            if got != want {
                rep.violation(
                    "setup_of_data_naming_no_resource",
                    &format!(
                        "{} set up {} time(s): the setup of the declared data of {} (a user system data that names no resource) ran {} time(s), expected {}",
                        if asyncd { "AsyncDispatcher" } else { "Dispatcher" }, j, WHO[i], got, want
                    ),
                    NORES_CASE,
                    J::Null,
                );
            } else if !present[i] {
                rep.violation(
                    "setup_did_not_create",
                    &format!("after setup the resource registered by the setup of the declared data of {} does not exist", WHO[i]),
                    NORES_CASE,
                    J::Null,
                );
            }
            rep.metric("setup_calls_of_data_naming_no_resource_checked", got as i64);
        }
        rep.nontrivial(mix(0x13_0000 + variant as u64, 0x5e));
    }
}

pub fn run(args: &Args) -> i32 {
    let mut rep = Report::new(args);
    let pool = crate::sys::make_pool(2);
    let n = args.count(200_000, 2_400_000);
    let range: Vec<u64> = match args.case {
        Some(c) => vec![c],
        None => (0..n).collect(),
    };
    if args.case.is_none() || args.case == Some(NORES_CASE) {
        guard_case(&mut rep, NORES_CASE, |rep| case_nores(rep));
    }
    for c in range {
        if c == NORES_CASE {
            continue;
        }
        if rep.time_up() {
            break;
        }
        let mut rng = Rng::new(args.case_seed(c));
        #[cfg(feature = "parallel")]
        if c % 8 == 7 {
            guard_case(&mut rep, c, |rep| case_async(&mut rng, &pool, rep, c));
            continue;
        }
        guard_case(&mut rep, c, |rep| case(&mut rng, &pool, rep, c));
    }
    rep.finish();
    0
}
