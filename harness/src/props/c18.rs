//! C18 – the builder accepts every well-formed registration sequence and rejects exactly the two
//! ill-formed calls (unknown dependency name, reused non-empty name) at that very call with a
//! message quoting the name.

use std::collections::HashSet;
use std::panic::{catch_unwind, AssertUnwindSafe};
use std::sync::Arc;

use shred::DispatcherBuilder;

use crate::ctx::*;
use crate::gen::*;
use crate::json::J;
use crate::plan::*;
use crate::report::*;
use crate::rng::{mix, Rng};
use crate::sys::{instantiate, register, Pool};

#[derive(Clone, Debug)]
enum Ill {
    None,
    /// at item index: dependency on a name never registered at this level
    UnknownDep(usize, String),
    /// at item index: name equals an earlier non-empty name
    DupName(usize, String),
}

const PROFILES: [Profile; 11] = [
    Profile::WideStage,
    Profile::Funnel,
    Profile::Funnel,
    Profile::Dense,
    Profile::DepFans,
    Profile::Names,
    Profile::Names,
    Profile::Mixed,
    Profile::Batchy,
    Profile::Huge,
    Profile::Tiny,
];

fn item_name(it: &Item) -> Option<&str> {
    match it {
        Item::Sys(s) => Some(&s.name),
        Item::Batch(b) => Some(&b.name),
        _ => None,
    }
}

/// Makes exactly one top-level call ill-formed (or none).
fn inject(plan: &mut Plan, rng: &mut Rng) -> Ill {
    let unit_idx: Vec<usize> = plan.items.iter().enumerate().filter(|(_, i)| matches!(i, Item::Sys(_) | Item::Batch(_))).map(|(i, _)| i).collect();
    if unit_idx.is_empty() {
        return Ill::None;
    }
    let at = *rng.pick(&unit_idx);
    let earlier_named: Vec<String> = plan.items[..at].iter().filter_map(item_name).filter(|n| !n.is_empty()).map(|s| s.to_string()).collect();
    let later_named: Vec<String> = plan.items[at + 1..].iter().filter_map(item_name).filter(|n| !n.is_empty()).map(|s| s.to_string()).collect();
    let inner_named: Vec<String> = {
        let mut v = Vec::new();
        for b in plan.batches() {
            b.inner.walk(&mut |it, _| {
                if let Some(n) = item_name(it) {
                    if !n.is_empty() {
                        v.push(n.to_string());
                    }
                }
            });
        }
        v
    };
    let all_named: HashSet<String> = plan.items.iter().filter_map(item_name).map(|s| s.to_string()).collect();
    let choice = rng.below(6);
    let set_deps = |it: &mut Item, d: Vec<String>| match it {
        Item::Sys(s) => s.deps = d,
        Item::Batch(b) => b.deps = d,
        _ => {}
    };
    let get_deps = |it: &Item| match it {
        Item::Sys(s) => s.deps.clone(),
        Item::Batch(b) => b.deps.clone(),
        _ => vec![],
    };
    match choice {
        // duplicate name
        0 | 1 if !earlier_named.is_empty() => {
            let n = rng.pick(&earlier_named).clone();
            match &mut plan.items[at] {
                Item::Sys(s) => s.name = n.clone(),
                Item::Batch(b) => b.name = n.clone(),
                _ => {}
            }
            Ill::DupName(at, n)
        }
        // the empty name as a dependency: it is never recorded
        2 => {
            let mut d = get_deps(&plan.items[at]);
            let pos = rng.below(d.len() + 1);
            d.insert(pos, String::new());
            set_deps(&mut plan.items[at], d);
            Ill::UnknownDep(at, String::new())
        }
        // a name that is only registered later
        3 if !later_named.is_empty() => {
            let n = rng.pick(&later_named).clone();
            if earlier_named.contains(&n) {
                return Ill::None;
            }
            let mut d = get_deps(&plan.items[at]);
            let pos = rng.below(d.len() + 1);
            d.insert(pos, n.clone());
            set_deps(&mut plan.items[at], d);
            Ill::UnknownDep(at, n)
        }
        // a name that only exists inside a batch (not visible to the parent)
        4 if !inner_named.is_empty() => {
            let n = rng.pick(&inner_named).clone();
            if all_named.contains(&n) {
                return Ill::None;
            }
            let mut d = get_deps(&plan.items[at]);
            let pos = rng.below(d.len() + 1);
            d.insert(pos, n.clone());
            set_deps(&mut plan.items[at], d);
            Ill::UnknownDep(at, n)
        }
        // a fresh unknown name (also: sanitised spelling of an existing name, own name)
        _ => {
            let n = match rng.below(4) {
                0 => "no such system".to_string(),
                1 => match earlier_named.first() {
                    Some(e) if crate::props::c20::sanitise(e) != *e => crate::props::c20::sanitise(e),
                    _ => "ghost".to_string(),
                },
                2 => match item_name(&plan.items[at]) {
                    Some(own) if !own.is_empty() && !earlier_named.iter().any(|e| e == own) => own.to_string(),
                    _ => "self?".to_string(),
                },
                _ => format!("s{}", 1_000_000 + rng.below(1000)),
            };
            if earlier_named.contains(&n) {
                return Ill::None;
            }
            let mut d = get_deps(&plan.items[at]);
            let pos = rng.below(d.len() + 1);
            d.insert(pos, n.clone());
            set_deps(&mut plan.items[at], d);
            Ill::UnknownDep(at, n)
        }
    }
}

fn case(rng: &mut Rng, pool: &Pool, rep: &mut Report, case_no: u64) {
    let profile = *rng.pick(&PROFILES);
    let mut c = cfg_for(profile, rng);
    if rng.chance(1, 3) {
        c.p_unnamed = rng.range(30, 100);
    }
    if profile == Profile::Huge {
        c.n = (100, 600);
    }
    c.tl = (0, 2);
    let mut plan = gen_with(rng, &c);
    let orig = plan.clone();
    let ill = if rng.chance(1, 2) { inject(&mut plan, rng) } else { Ill::None };
    rep.evaluations += 1;
    rep.metric(&format!("profile_{}", profile.name()), 1);
    let ctx = Ctx::new(plan.n_uids().max(1), 16);
    let mut b = DispatcherBuilder::new();
    #[cfg(feature = "parallel")]
    b.add_pool(pool.clone());
    let mut calls = 0usize;
    let mut verdict: Option<(String, String)> = None;
    let mut ill_seen = false;
    // every 12th builder is filled by a cleanup guard while its thread unwinds from something else
    let in_destructor = rng.chance(1, 12) && plan.items.len() <= 60;
    if in_destructor {
        rep.metric("builders_filled_from_a_destructor_during_unwinding", 1);
    }
    for (idx, it) in plan.items.iter().enumerate() {
        calls += 1;
        // inner builders of a batch are built by `register` (all inner plans are well-formed)
        let r = if in_destructor {
            during_unwind(|| register(&mut b, it, &ctx, Some(pool))).map_err(|m| Box::new(m) as Box<dyn std::any::Any + Send>)
        } else {
            catch_unwind(AssertUnwindSafe(|| register(&mut b, it, &ctx, Some(pool))))
        };
        let expect_ill = match &ill {
            Ill::UnknownDep(at, _) | Ill::DupName(at, _) => *at == idx,
            Ill::None => false,
        };
        match (r, expect_ill) {
            (Ok(()), false) => {}
            (Err(p), false) => {
                verdict = Some((
                    "well_formed_call_panicked".into(),
                    format!("registration #{} ({}) of a well-formed sequence panicked: {}", idx, brief(it), payload_str(&*p)),
                ));
                break;
            }
            (Ok(()), true) => {
                verdict = Some(("ill_formed_call_accepted".into(), format!("ill-formed registration #{} ({}) was accepted: {:?}", idx, brief(it), ill)));
                break;
            }
            (Err(p), true) => {
                ill_seen = true;
                let msg = payload_str(&*p);
                let name = match &ill {
                    Ill::UnknownDep(_, n) | Ill::DupName(_, n) => n.clone(),
                    Ill::None => String::new(),
                };
                // "quoting the offending name": the name must appear in the message; how it is
                // delimited is not prescribed (for the empty name there is nothing to find)
                if !name.is_empty() && !msg.contains(&name) {
                    verdict = Some(("message_without_name".into(), format!("the panic of ill-formed registration #{} does not quote the offending name {:?}: {:?}", idx, name, msg)));
                }
                rep.metric(match &ill { Ill::DupName(..) => "ill_dup_name_rejected", _ => "ill_unknown_dep_rejected" }, 1);
                if verdict.is_some() {
                    break;
                }
                // the caller repairs the call (the name / dependency list it meant) and carries on
                // with the same builder: the rejected call registered nothing, so the repaired one
                // is an ordinary well-formed registration, and so are all that follow
                let r2 = catch_unwind(AssertUnwindSafe(|| register(&mut b, &orig.items[idx], &ctx, Some(pool))));
                if let Err(p) = r2 {
                    verdict = Some((
                        "well_formed_call_panicked:after_a_rejected_call".into(),
                        format!("registration #{} was rejected ({:?}); the repaired call ({}) on the same builder panicked: {}", idx, ill, brief(&orig.items[idx]), payload_str(&*p)),
                    ));
                    break;
                }
                rep.metric("repaired_calls_accepted", 1);
            }
        }
    }
    rep.metric("builder_calls", calls as i64);
    rep.metric_max("calls_in_one_builder", calls as i64);
    if verdict.is_none() {
        // a well-formed sequence must build
        let r = catch_unwind(AssertUnwindSafe(move || {
            let d = b.build();
            drop(d);
        }));
        if let Err(p) = r {
            verdict = Some(("build_panicked".into(), format!("build() of a well-formed sequence panicked: {}", payload_str(&*p))));
        }
        // and the same sequence through the chaining API
        if verdict.is_none() && rng.chance(1, 4) {
            let r = catch_unwind(AssertUnwindSafe(|| {
                let d = instantiate(&orig, &ctx, Some(pool)).build();
                drop(d);
            }));
            if let Err(p) = r {
                verdict = Some(("build_panicked".into(), format!("second build of a well-formed sequence panicked: {}", payload_str(&*p))));
            }
        }
        rep.metric("well_formed_built", 1);
    }
    if let Some((k, m)) = verdict {
        rep.violation(&k, &m, case_no, J::obj().set("plan", plan.to_json()).set("ill", format!("{:?}", ill)));
    }
    let nontrivial = calls >= 20 || ill_seen;
    if nontrivial {
        rep.nontrivial(mix(plan.hash(), ill_seen as u64));
    }
    if rep.samples.len() < rep.max_samples && ill_seen && plan.n_systems_total() < 12 {
        rep.sample(J::obj().set("case", case_no).set("plan", plan.to_json()).set("ill_formed_call", format!("{:?}", ill)));
    }
    let _ = Arc::strong_count(&ctx);
}

fn brief(it: &Item) -> String {
    match it {
        Item::Sys(s) => format!("system {:?} deps {:?}", s.name, s.deps),
        Item::Batch(b) => format!("batch {:?} deps {:?}", b.name, b.deps),
        Item::Barrier => "barrier".into(),
        Item::Failed(_) => "failed attempt".into(),
        Item::Tl(_) => "thread-local".into(),
    }
}

pub fn run(args: &Args) -> i32 {
    let mut rep = Report::new(args);
    let pool = crate::sys::make_pool(1);
    let n = args.count(120_000, 1_600_000);
    let range: Vec<u64> = match args.case {
        Some(c) => vec![c],
        None => (0..n).collect(),
    };
    for c in range {
        if rep.time_up() {
            break;
        }
        let mut rng = Rng::new(args.case_seed(c));
        guard_case(&mut rep, c, |rep| case(&mut rng, &pool, rep, c));
    }
    rep.finish();
    0
}
