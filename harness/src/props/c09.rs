//! C09 – the world is a faithful typed map: values keep their type, slot and identity.
//! History checker against a reference map + type-id invariant after every step + drop ledger.

use std::any::TypeId;
use std::cell::RefCell;
use std::collections::BTreeMap;
use std::panic::{catch_unwind, AssertUnwindSafe};

use shred::{Read, ReadExpect, Resource, ResourceId, World, Write};

use crate::ctx::*;
use crate::json::J;
use crate::report::*;
use crate::rng::{mix, Rng};

thread_local! {
    /// serial -> (constructed, dropped). Switched off (None) in leak-checking / address-sanitizer
    /// runs would hide nothing here because only counters are kept, never addresses.
    static LEDGER: RefCell<BTreeMap<u64, (u32, u32)>> = const { RefCell::new(BTreeMap::new()) };
    static SERIAL: RefCell<u64> = const { RefCell::new(1) };
    /// serial of the one tracked value whose `Drop` panics (0 = none): "drop behaviour" includes
    /// a destructor that fails
    static DROP_PANICS: std::cell::Cell<u64> = const { std::cell::Cell::new(0) };
}

fn maybe_panic_in_drop(serial: u64) {
    let armed = DROP_PANICS.try_with(|a| {
        if a.get() == serial && serial != 0 {
            a.set(0);
            true
        } else {
            false
        }
    });
    if armed == Ok(true) && !std::thread::panicking() {
        std::panic::panic_any("INJECTED-PANIC in Drop".to_string());
    }
}

fn new_serial() -> u64 {
    SERIAL.with(|s| {
        let mut s = s.borrow_mut();
        *s += 1;
        let v = *s;
        LEDGER.with(|l| l.borrow_mut().insert(v, (1, 0)));
        v
    })
}

fn note_drop(serial: u64) {
    let _ = LEDGER.try_with(|l| {
        if let Ok(mut l) = l.try_borrow_mut() {
            l.entry(serial).or_insert((0, 0)).1 += 1;
        }
    });
}

/// A value type of the universe. `fp()` recovers the content id it was made from.
pub trait CVal: Resource + Sized {
    const IDX: usize;
    fn make(v: u64) -> Self;
    fn fp(&self) -> u64;
    /// what `fp()` returns for a value made from v (ZST: always 0; u8: truncated ...)
    fn norm(v: u64) -> u64;
    fn serial(&self) -> u64 {
        0
    }
}

#[derive(Default, Debug)]
pub struct Z;
#[derive(Default, Debug)]
pub struct B(pub u8);
#[derive(Debug)]
pub struct Big(pub [u64; 32]);
impl Default for Big {
    fn default() -> Self {
        Big([0; 32])
    }
}
#[derive(Default, Debug)]
pub struct S(pub String);
#[derive(Default, Debug)]
pub struct V(pub Vec<u8>);
#[derive(Default, Debug)]
#[repr(align(16))]
pub struct A16(pub u64, pub u8);
#[derive(Debug)]
pub struct D1 {
    pub v: u64,
    pub serial: u64,
}
#[derive(Debug)]
pub struct D2 {
    pub pad: [u8; 40],
    pub v: u64,
    pub serial: u64,
    pub s: String,
}
impl Default for D1 {
    fn default() -> Self {
        D1 { v: 0, serial: new_serial() }
    }
}
impl Default for D2 {
    fn default() -> Self {
        D2 { pad: [0; 40], v: 0, serial: new_serial(), s: String::new() }
    }
}
impl Drop for D1 {
    fn drop(&mut self) {
        note_drop(self.serial);
        maybe_panic_in_drop(self.serial);
    }
}
impl Drop for D2 {
    fn drop(&mut self) {
        note_drop(self.serial);
    }
}

impl CVal for Z {
    const IDX: usize = 0;
    fn make(_: u64) -> Self {
        Z
    }
    fn fp(&self) -> u64 {
        0
    }
    fn norm(_: u64) -> u64 {
        0
    }
}
impl CVal for B {
    const IDX: usize = 1;
    fn make(v: u64) -> Self {
        B(v as u8)
    }
    fn fp(&self) -> u64 {
        self.0 as u64
    }
    fn norm(v: u64) -> u64 {
        v as u8 as u64
    }
}
impl CVal for Big {
    const IDX: usize = 2;
    fn make(v: u64) -> Self {
        Big([v; 32])
    }
    fn fp(&self) -> u64 {
        if self.0.iter().all(|x| *x == self.0[0]) {
            self.0[0]
        } else {
            u64::MAX
        }
    }
    fn norm(v: u64) -> u64 {
        v
    }
}
impl CVal for S {
    const IDX: usize = 3;
    fn make(v: u64) -> Self {
        S(format!("value-{}", v))
    }
    fn fp(&self) -> u64 {
        self.0.strip_prefix("value-").and_then(|x| x.parse().ok()).unwrap_or(if self.0.is_empty() { 0 } else { u64::MAX })
    }
    fn norm(v: u64) -> u64 {
        v
    }
}
impl CVal for V {
    const IDX: usize = 4;
    fn make(v: u64) -> Self {
        V(vec![(v % 251) as u8; (v % 97) as usize])
    }
    fn fp(&self) -> u64 {
        self.0.len() as u64
    }
    fn norm(v: u64) -> u64 {
        v % 97
    }
}
impl CVal for A16 {
    const IDX: usize = 5;
    fn make(v: u64) -> Self {
        A16(v, 7)
    }
    fn fp(&self) -> u64 {
        if (self as *const Self as usize) % 16 != 0 {
            return u64::MAX;
        }
        self.0
    }
    fn norm(v: u64) -> u64 {
        v
    }
}
impl CVal for D1 {
    const IDX: usize = 6;
    fn make(v: u64) -> Self {
        D1 { v, serial: new_serial() }
    }
    fn fp(&self) -> u64 {
        self.v
    }
    fn norm(v: u64) -> u64 {
        v
    }
    fn serial(&self) -> u64 {
        self.serial
    }
}
impl CVal for D2 {
    const IDX: usize = 7;
    fn make(v: u64) -> Self {
        D2 { pad: [v as u8; 40], v, serial: new_serial(), s: format!("d2-{}", v) }
    }
    fn fp(&self) -> u64 {
        if self.pad.iter().all(|p| *p == self.v as u8) && (self.s == format!("d2-{}", self.v) || (self.v == 0 && self.s.is_empty())) {
            self.v
        } else {
            u64::MAX
        }
    }
    fn norm(v: u64) -> u64 {
        v
    }
    fn serial(&self) -> u64 {
        self.serial
    }
}

/// A resource type that is itself a type-erased box (the table stores `Box<dyn Resource>` around
/// it: two layers that must never be confused). No `Default`.
pub type BoxRes = Box<dyn Resource>;
impl CVal for BoxRes {
    const IDX: usize = 8;
    fn make(v: u64) -> Self {
        Box::new(D1::make(v))
    }
    fn fp(&self) -> u64 {
        (**self).downcast_ref::<D1>().map(|d| d.v).unwrap_or(u64::MAX)
    }
    fn norm(v: u64) -> u64 {
        v
    }
    fn serial(&self) -> u64 {
        (**self).downcast_ref::<D1>().map(|d| d.serial).unwrap_or(0)
    }
}

pub const NT: usize = 9;
/// types 0..NT_DEFAULT implement `Default` (needed by `Read` / `Write` setup)
pub const NT_DEFAULT: usize = 8;
pub const ND: usize = 3;

#[macro_export]
macro_rules! with_cty {
    ($t:expr, $T:ident => $e:expr) => {
        match $t {
            0 => { type $T = $crate::props::c09::Z; $e }
            1 => { type $T = $crate::props::c09::B; $e }
            2 => { type $T = $crate::props::c09::Big; $e }
            3 => { type $T = $crate::props::c09::S; $e }
            4 => { type $T = $crate::props::c09::V; $e }
            5 => { type $T = $crate::props::c09::A16; $e }
            6 => { type $T = $crate::props::c09::D1; $e }
            7 => { type $T = $crate::props::c09::D2; $e }
            8 => { type $T = $crate::props::c09::BoxRes; $e }
            _ => unreachable!("type index"),
        }
    };
}

/// the types with a `Default`
macro_rules! with_cty_d {
    ($t:expr, $T:ident => $e:expr) => {
        match $t {
            0 => { type $T = Z; $e }
            1 => { type $T = B; $e }
            2 => { type $T = Big; $e }
            3 => { type $T = S; $e }
            4 => { type $T = V; $e }
            5 => { type $T = A16; $e }
            6 => { type $T = D1; $e }
            7 => { type $T = D2; $e }
            _ => unreachable!("type index (default)"),
        }
    };
}

fn rid(t: usize, d: usize) -> ResourceId {
    with_cty!(t, T => ResourceId::new_with_dynamic_id::<T>(d as u64))
}
fn tyid(t: usize) -> TypeId {
    with_cty!(t, T => TypeId::of::<T>())
}
fn norm(t: usize, v: u64) -> u64 {
    with_cty!(t, T => <T as CVal>::norm(v))
}

type Key = (usize, usize);

#[derive(Debug)]
enum Outcome {
    Ok(String),
    Panic(PanicKind, String),
}

fn guarded(f: impl FnOnce() -> String) -> Outcome {
    match catch_unwind(AssertUnwindSafe(f)) {
        Ok(s) => Outcome::Ok(s),
        Err(p) => {
            let m = payload_str(&*p);
            Outcome::Panic(classify(&m), m)
        }
    }
}

struct H {
    world: World,
    model: BTreeMap<Key, u64>,
    log: Vec<String>,
    replaced: bool,
    removed: bool,
    mismatched: bool,
    leaked: bool,
}

impl H {
    fn expect(&mut self, what: String, got: Outcome, want: Result<String, PanicKind>) -> Option<(String, String)> {
        self.log.push(what.clone());
        if self.log.len() > 60 {
            self.log.remove(0);
        }
        match (got, want) {
            (Outcome::Ok(g), Ok(w)) => {
                if g == w {
                    None
                } else {
                    Some(("result_differs".into(), format!("{}: returned {}, the reference map says {}", what, g, w)))
                }
            }
            // the statement asks for *a* panic; its wording (hence its classification) is not
            // part of the property, except that an injected panic must stay the injected one
            (Outcome::Panic(k, m), Err(w)) => {
                if w == PanicKind::Injected && k != PanicKind::Injected {
                    Some(("wrong_panic".into(), format!("{}: panicked with {:?} ({}), expected the destructor's own panic", what, k, m)))
                } else {
                    None
                }
            }
            (Outcome::Panic(k, m), Ok(w)) => Some(("unexpected_panic".into(), format!("{}: panicked ({:?}: {}), the reference map says {}", what, k, m, w))),
            (Outcome::Ok(g), Err(w)) => {
                let kind = if w == PanicKind::WrongTypeId { "mismatched_type_accepted" } else { "missing_panic" };
                Some((kind.into(), format!("{}: returned {} but must panic ({:?})", what, g, w)))
            }
        }
    }

    /// type-id invariant + presence agreement, after every step
    fn invariant(&mut self) -> Option<(String, String)> {
        for t in 0..NT {
            for d in 0..ND {
                let id = rid(t, d);
                let has = self.world.has_value_raw(id.clone());
                let want = self.model.contains_key(&(t, d));
                if has != want {
                    return Some(("presence_differs".into(), format!("has_value_raw(type {}, dyn {}) = {}, reference map says {}", t, d, has, want)));
                }
                if let Some(r) = self.world.get_mut_raw(id) {
                    let r: &dyn Resource = r;
                    let actual = std::any::Any::type_id(r);
                    if actual != tyid(t) {
                        return Some(("type_id_invariant".into(), format!("the value stored under (type {}, dyn {}) has a different concrete type", t, d)));
                    }
                }
            }
        }
        None
    }
}

fn fmt_opt(o: Option<u64>) -> String {
    match o {
        Some(v) => format!("Some({})", v),
        None => "None".into(),
    }
}

fn step(h: &mut H, rng: &mut Rng) -> Option<(String, String)> {
    let t = rng.below(NT);
    let d = if rng.chance(1, 2) { 0 } else { rng.below(ND) };
    let v = 1 + rng.next() % 1_000_000;
    let mismatch = rng.chance(15, 100);
    // a *different* type with a different size where possible
    let u = {
        let mut u = rng.below(NT);
        if u == t {
            u = (t + 1 + rng.below(NT - 1)) % NT;
        }
        u
    };
    let cur = h.model.get(&(t, d)).cloned();
    let op = rng.below(22);
    // accessors that create a default need `Default`
    let t = if matches!(op, 16 | 18) && t >= NT_DEFAULT { rng.below(NT_DEFAULT) } else { t };
    let cur = if matches!(op, 16 | 18) { h.model.get(&(t, d)).cloned() } else { cur };
    #[allow(unused_assignments)]
    let mut world = &mut h.world as *mut World;
    // SAFETY of the raw pointer: `h.world` is only touched through this alias inside the closures
    // below while no other borrow of it exists (needed because `expect` takes &mut h afterwards).
    // A step that goes on after an `expect` call (which borrows all of `h`) derives it afresh.
    macro_rules! w {
        () => {
            unsafe { &mut *world }
        };
    }
    match op {
        0 if t == 6 && h.model.contains_key(&(6, d)) && rng.chance(1, 2) => {
            // replace a value whose destructor panics (the caller catches it): the new value must
            // be in place all the same, the old one is gone
            let serial = w!().get_mut_raw(rid(6, d)).map(|r| {
                let r: &dyn Resource = r;
                // SAFETY-free: go through the typed API
                let _ = r;
                0u64
            });
            let _ = serial;
            let serial = with_cty!(6, T => w!().try_fetch_by_id::<T>(rid(6, d)).map(|g| g.serial()).unwrap_or(0));
            DROP_PANICS.with(|a| a.set(serial));
            let r = guarded(|| {
                w!().insert_by_id(rid(6, d), D1::make(v));
                "()".into()
            });
            DROP_PANICS.with(|a| a.set(0));
            h.replaced = true;
            h.model.insert((6, d), norm(6, v));
            h.expect(format!("insert_by_id::<T6>(#{}, {}) over a value whose Drop panics", d, v), r, Err(PanicKind::Injected))
        }
        0 | 1 => {
            // insert (dyn 0): replaces
            let r = with_cty!(t, T => guarded(|| { w!().insert(T::make(v)); "()".into() }));
            if h.model.contains_key(&(t, 0)) {
                h.replaced = true;
            }
            h.model.insert((t, 0), norm(t, v));
            h.expect(format!("insert::<T{}>({})", t, v), r, Ok("()".into()))
        }
        2 | 3 => {
            if mismatch {
                h.mismatched = true;
                let r = with_cty!(u, U => guarded(|| { w!().insert_by_id(rid(t, d), U::make(v)); "()".into() }));
                h.expect(format!("insert_by_id::<T{}>(id of T{}#{}, {})", u, t, d, v), r, Err(PanicKind::WrongTypeId))
            } else {
                let r = with_cty!(t, T => guarded(|| { w!().insert_by_id(rid(t, d), T::make(v)); "()".into() }));
                if cur.is_some() {
                    h.replaced = true;
                }
                h.model.insert((t, d), norm(t, v));
                h.expect(format!("insert_by_id::<T{}>(#{}, {})", t, d, v), r, Ok("()".into()))
            }
        }
        4 => {
            let r = with_cty!(t, T => guarded(|| fmt_opt(w!().remove::<T>().map(|x| x.fp()))));
            let want = fmt_opt(h.model.remove(&(t, 0)));
            if want != "None" {
                h.removed = true;
            }
            h.expect(format!("remove::<T{}>()", t), r, Ok(want))
        }
        5 | 6 => {
            if mismatch {
                h.mismatched = true;
                let r = with_cty!(u, U => guarded(|| fmt_opt(w!().remove_by_id::<U>(rid(t, d)).map(|x| x.fp()))));
                h.expect(format!("remove_by_id::<T{}>(id of T{}#{})", u, t, d), r, Err(PanicKind::WrongTypeId))
            } else {
                let r = with_cty!(t, T => guarded(|| fmt_opt(w!().remove_by_id::<T>(rid(t, d)).map(|x| x.fp()))));
                let want = fmt_opt(h.model.remove(&(t, d)));
                if want != "None" {
                    h.removed = true;
                }
                h.expect(format!("remove_by_id::<T{}>(#{})", t, d), r, Ok(want))
            }
        }
        7 | 8 => {
            // entry().or_insert / or_insert_with: never overwrites
            let with = op == 8;
            let r = with_cty!(t, T => guarded(|| {
                let g = if with { w!().entry::<T>().or_insert_with(|| T::make(v)) } else { w!().entry::<T>().or_insert(T::make(v)) };
                format!("{}", g.fp())
            }));
            let want = *h.model.entry((t, 0)).or_insert(norm(t, v));
            h.expect(format!("entry::<T{}>().or_insert{}({})", t, if with { "_with" } else { "" }, v), r, Ok(format!("{}", want)))
        }
        9 => {
            let r = with_cty!(t, T => guarded(|| format!("{}", w!().has_value::<T>())));
            h.expect(format!("has_value::<T{}>()", t), r, Ok(format!("{}", h.model.contains_key(&(t, 0)))))
        }
        10 => {
            // get_mut: read, then overwrite in place
            let r = with_cty!(t, T => guarded(|| match w!().get_mut::<T>() {
                Some(x) => { let old = x.fp(); *x = T::make(v); format!("Some({})", old) }
                None => "None".into(),
            }));
            let want = fmt_opt(h.model.get(&(t, 0)).cloned());
            if h.model.contains_key(&(t, 0)) {
                h.model.insert((t, 0), norm(t, v));
            }
            h.expect(format!("get_mut::<T{}>() then overwrite with {}", t, v), r, Ok(want))
        }
        11 => {
            let r = guarded(|| match w!().get_mut_raw(rid(t, d)) {
                Some(x) => {
                    let x: &dyn Resource = x;
                    format!("Some(type ok = {})", std::any::Any::type_id(x) == tyid(t))
                }
                None => "None".into(),
            });
            let want = if cur.is_some() { "Some(type ok = true)".to_string() } else { "None".into() };
            h.expect(format!("get_mut_raw(T{}#{})", t, d), r, Ok(want))
        }
        12 => {
            // fetch / fetch_mut (dyn 0)
            let c0 = h.model.get(&(t, 0)).cloned();
            let m = rng.chance(1, 2);
            let r = with_cty!(t, T => guarded(|| if m { format!("{}", w!().fetch_mut::<T>().fp()) } else { format!("{}", w!().fetch::<T>().fp()) }));
            let want = match c0 {
                Some(x) => Ok(format!("{}", x)),
                None => Err(PanicKind::MissingResource),
            };
            h.expect(format!("fetch{}::<T{}>()", if m { "_mut" } else { "" }, t), r, want)
        }
        13 => {
            let c0 = h.model.get(&(t, 0)).cloned();
            let m = rng.chance(1, 2);
            let r = with_cty!(t, T => guarded(|| if m { fmt_opt(w!().try_fetch_mut::<T>().map(|g| g.fp())) } else { fmt_opt(w!().try_fetch::<T>().map(|g| g.fp())) }));
            h.expect(format!("try_fetch{}::<T{}>()", if m { "_mut" } else { "" }, t), r, Ok(fmt_opt(c0)))
        }
        14 | 15 => {
            let m = op == 15;
            if mismatch {
                h.mismatched = true;
                let r = with_cty!(u, U => guarded(|| if m { fmt_opt(w!().try_fetch_mut_by_id::<U>(rid(t, d)).map(|g| g.fp())) } else { fmt_opt(w!().try_fetch_by_id::<U>(rid(t, d)).map(|g| g.fp())) }));
                h.expect(format!("try_fetch{}_by_id::<T{}>(id of T{}#{})", if m { "_mut" } else { "" }, u, t, d), r, Err(PanicKind::WrongTypeId))
            } else {
                let r = with_cty!(t, T => guarded(|| if m {
                    fmt_opt(w!().try_fetch_mut_by_id::<T>(rid(t, d)).map(|mut g| { let old = g.fp(); *g = T::make(v); old }))
                } else {
                    fmt_opt(w!().try_fetch_by_id::<T>(rid(t, d)).map(|g| g.fp()))
                }));
                let want = fmt_opt(cur);
                if m && cur.is_some() {
                    h.model.insert((t, d), norm(t, v));
                }
                h.expect(format!("try_fetch{}_by_id::<T{}>(#{})", if m { "_mut" } else { "" }, t, d), r, Ok(want))
            }
        }
        16 => {
            // setup of a default-providing accessor creates the default iff vacant
            let r = with_cty_d!(t, T => guarded(|| { if rng.chance(1, 2) { w!().setup::<Read<T>>() } else { w!().setup::<Write<T>>() }; "()".into() }));
            h.model.entry((t, 0)).or_insert(0);
            h.expect(format!("setup::<Read|Write<T{}>>()", t), r, Ok("()".into()))
        }
        17 => {
            // optional / expecting accessors create nothing
            let r = with_cty!(t, T => guarded(|| { w!().setup::<(Option<Read<T>>, ReadExpect<T>, Option<Write<T>>)>(); "()".into() }));
            h.expect(format!("setup::<(Option<Read>, ReadExpect, Option<Write>)<T{}>>()", t), r, Ok("()".into()))
        }
        18 => {
            // exec = setup + system_data
            let r = with_cty_d!(t, T => guarded(|| w!().exec(|mut x: Write<T>| { let old = x.fp(); *x = T::make(v); format!("{}", old) })));
            let old = *h.model.entry((t, 0)).or_insert(0);
            h.model.insert((t, 0), norm(t, v));
            h.expect(format!("exec(|Write<T{}>| overwrite {})", t, v), r, Ok(format!("{}", old)))
        }
        19 | 20 if cur.is_some() => {
            // A guard of the stored value is leaked (`mem::forget`: safe code). The value stays
            // borrowed for good - until `insert` replaces it: the new value is a new value, nobody
            // ever borrowed it. (Only calls whose behaviour on a leaked borrow does not depend on
            // the build profile are made before the replacement.)
            h.leaked = true;
            let excl = op == 20;
            let typed = d == 0 && rng.chance(1, 2);
            let r = with_cty!(t, T => guarded(|| {
                if excl {
                    std::mem::forget(w!().try_fetch_mut_by_id::<T>(rid(t, d)));
                } else {
                    std::mem::forget(w!().try_fetch_by_id::<T>(rid(t, d)));
                }
                "()".into()
            }));
            let what = format!("leak a {} guard of T{}#{}", if excl { "FetchMut" } else { "Fetch" }, t, d);
            if let Some(f) = h.expect(what, r, Ok("()".into())) {
                return Some(f);
            }
            world = &mut h.world as *mut World;
            // while it is leaked: presence is unaffected, a conflicting fetch panics, a
            // compatible one succeeds
            let r = guarded(|| format!("{}", w!().has_value_raw(rid(t, d))));
            if let Some(f) = h.expect(format!("has_value_raw(T{}#{}) with a leaked guard", t, d), r, Ok("true".into())) {
                return Some(f);
            }
            world = &mut h.world as *mut World;
            let r = with_cty!(t, T => guarded(|| fmt_opt(w!().try_fetch_mut_by_id::<T>(rid(t, d)).map(|g| g.fp()))));
            if let Some(f) = h.expect(format!("try_fetch_mut_by_id::<T{}>(#{}) with a leaked guard", t, d), r, Err(PanicKind::Other)) {
                return Some(f);
            }
            world = &mut h.world as *mut World;
            let r = with_cty!(t, T => guarded(|| fmt_opt(w!().try_fetch_by_id::<T>(rid(t, d)).map(|g| g.fp()))));
            let want = if excl { Err(PanicKind::Other) } else { Ok(fmt_opt(cur)) };
            if let Some(f) = h.expect(format!("try_fetch_by_id::<T{}>(#{}) with a leaked {} guard", t, d, if excl { "exclusive" } else { "shared" }), r, want) {
                return Some(f);
            }
            world = &mut h.world as *mut World;
            // insert replaces - value and borrow state
            let r = with_cty!(t, T => guarded(|| {
                if typed { w!().insert(T::make(v)) } else { w!().insert_by_id(rid(t, d), T::make(v)) }
                "()".into()
            }));
            h.replaced = true;
            h.model.insert((t, d), norm(t, v));
            if let Some(f) = h.expect(format!("{}::<T{}>(#{}, {}) over the value with the leaked guard", if typed { "insert" } else { "insert_by_id" }, t, d, v), r, Ok("()".into())) {
                return Some(f);
            }
            world = &mut h.world as *mut World;
            let r = with_cty!(t, T => guarded(|| fmt_opt(w!().try_fetch_mut_by_id::<T>(rid(t, d)).map(|g| g.fp()))));
            h.expect(format!("try_fetch_mut_by_id::<T{}>(#{}) of the value inserted over the leaked one", t, d), r, Ok(fmt_opt(Some(norm(t, v)))))
        }
        _ => {
            let r = guarded(|| format!("{}", w!().has_value_raw(rid(t, d))));
            h.expect(format!("has_value_raw(T{}#{})", t, d), r, Ok(format!("{}", cur.is_some())))
        }
    }
}

fn history(rng: &mut Rng, rep: &mut Report, case_no: u64, len: usize) {
    LEDGER.with(|l| l.borrow_mut().clear());
    let mut h = H { world: World::empty(), model: BTreeMap::new(), log: Vec::new(), replaced: false, removed: false, mismatched: false, leaked: false };
    rep.evaluations += 1;
    let mut hh = 0x09u64;
    let mut failure = None;
    for i in 0..len {
        let f = step(&mut h, rng).or_else(|| h.invariant());
        rep.metric("ops", 1);
        if let Some(x) = f {
            failure = Some((x, i));
            break;
        }
    }
    for l in &h.log {
        hh = mix(hh, crate::rng::hash_str(l));
    }
    let log = h.log.clone();
    let (replaced, removed, mismatched) = (h.replaced, h.removed, h.mismatched);
    if h.leaked {
        rep.metric("histories_with_a_leaked_guard", 1);
    }
    // ---- every tracked value is dropped exactly once ----
    drop(h);
    if failure.is_none() {
        let bad = LEDGER.with(|l| l.borrow().iter().find(|(_, (c, d))| c != d).map(|(s, (c, d))| (*s, *c, *d)));
        if let Some((s, c, d)) = bad {
            failure = Some(((if d > c { "dropped_twice" } else { "never_dropped" }.to_string(), format!("tracked value #{} was constructed {} time(s) and dropped {} time(s) by the end of the history", s, c, d)), len));
        }
        rep.metric("tracked_values", LEDGER.with(|l| l.borrow().len()) as i64);
    }
    if let Some(((k, m), at)) = failure {
        rep.violation(&k, &m, case_no, J::obj().set("failed_at_step", at).set("last_ops", J::from(log.clone())));
        return;
    }
    if replaced && removed && mismatched {
        rep.nontrivial(hh);
    }
    if rep.samples.len() < rep.max_samples && replaced && removed && mismatched {
        rep.sample(J::obj().set("case", case_no).set("history_tail", J::from(log.iter().rev().take(25).rev().cloned().collect::<Vec<_>>())));
    }
}

pub fn run(args: &Args) -> i32 {
    let mut rep = Report::new(args);
    let n = args.count(160_000, 2_400_000);
    let range: Vec<u64> = match args.case {
        Some(c) => vec![c],
        None => (0..n).collect(),
    };
    for c in range {
        if rep.time_up() {
            break;
        }
        let mut rng = Rng::new(args.case_seed(c));
        guard_case(&mut rep, c, |rep| history(&mut rng, rep, c, 80));
    }
    rep.finish();
    0
}
