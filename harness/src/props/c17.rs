//! C17 – meta table: exactly the registered types, once each, with the right vtable.

use std::any::TypeId;
use std::panic::{catch_unwind, AssertUnwindSafe};

use shred::{CastFrom, MetaTable, Resource, ResourceId, World};

use crate::ctx::*;
use crate::json::J;
use crate::report::*;
use crate::rng::{mix, Rng};

pub trait MObj {
    fn tag(&self) -> u32;
    fn addr(&self) -> usize;
    fn peek(&self) -> u64;
    fn poke(&mut self) -> u64;
}

macro_rules! def_obj {
    ($name:ident, $tag:expr, $(#[$m:meta])* { $($f:ident : $t:ty = $init:expr),* }, $n:ty) => {
        $(#[$m])*
        #[derive(Debug)]
        pub struct $name { pub n: $n, $(pub $f: $t),* }
        impl $name {
            pub fn new(v: u64) -> Self { $name { n: v as $n, $($f: $init),* } }
        }
        impl MObj for $name {
            fn tag(&self) -> u32 { $tag }
            fn addr(&self) -> usize { self as *const Self as usize }
            fn peek(&self) -> u64 { self.n as u64 }
            fn poke(&mut self) -> u64 { self.n = self.n.wrapping_add(1); self.n as u64 }
        }
        unsafe impl CastFrom<$name> for dyn MObj {
            fn cast(t: *mut $name) -> *mut Self { t }
        }
    };
}

def_obj!(O1, 1, {}, u8);
def_obj!(O2, 2, {}, u64);
def_obj!(O3, 3, { pad: [u64; 4] = [3; 4] }, u64);
def_obj!(O4, 4, { s: String = "four".to_string() }, u64);
def_obj!(O5, 5, { v: Vec<u32> = vec![5; 5] }, u32);
def_obj!(O6, 6, { big: [u8; 4096] = [6; 4096] }, u64);
def_obj!(O7, 7, #[repr(align(16))] {}, u64);
def_obj!(O8, 8, #[repr(align(64))] { x: [u8; 3] = [8; 3] }, u16);
def_obj!(O9, 9, { a: u16 = 9, b: u8 = 9 }, u8);
def_obj!(O10, 10, { b: Box<u64> = Box::new(10) }, u64);
def_obj!(O11, 11, { wide: [u64; 64] = [11; 64] }, u64);

/// zero-sized implementor
#[derive(Debug)]
pub struct O0;
impl O0 {
    pub fn new(_: u64) -> Self {
        O0
    }
}
impl MObj for O0 {
    fn tag(&self) -> u32 {
        0
    }
    fn addr(&self) -> usize {
        self as *const Self as usize
    }
    fn peek(&self) -> u64 {
        0
    }
    fn poke(&mut self) -> u64 {
        0
    }
}
unsafe impl CastFrom<O0> for dyn MObj {
    fn cast(t: *mut O0) -> *mut Self {
        t
    }
}

pub const NO: usize = 12;

macro_rules! with_o {
    ($t:expr, $T:ident => $e:expr) => {
        match $t {
            0 => { type $T = O0; $e }
            1 => { type $T = O1; $e }
            2 => { type $T = O2; $e }
            3 => { type $T = O3; $e }
            4 => { type $T = O4; $e }
            5 => { type $T = O5; $e }
            6 => { type $T = O6; $e }
            7 => { type $T = O7; $e }
            8 => { type $T = O8; $e }
            9 => { type $T = O9; $e }
            10 => { type $T = O10; $e }
            11 => { type $T = O11; $e }
            _ => unreachable!(),
        }
    };
}

/// what `peek()` returns for a value constructed from v (field widths differ)
fn norm(t: usize, v: u64) -> u64 {
    with_o!(t, T => T::new(v).peek())
}
fn bump(t: usize, v: u64) -> u64 {
    with_o!(t, T => { let mut x = T::new(v); x.poke() })
}

/// A deliberately wrong cast: yields an object at a different address.
pub trait BadObj {
    fn hello(&self) -> u64;
}
impl BadObj for O2 {
    fn hello(&self) -> u64 {
        self.n
    }
}
unsafe impl CastFrom<O2> for dyn BadObj {
    fn cast(_t: *mut O2) -> *mut Self {
        // some other object of the same type (a static: nothing is leaked)
        static mut OTHER: O2 = O2 { n: 99 };
        std::ptr::addr_of_mut!(OTHER)
    }
}

struct M {
    reg: Vec<usize>,
    present: [Option<u64>; NO],
    present_dyn1: [bool; NO],
}

fn expected_iter(m: &M) -> Vec<(usize, u64)> {
    m.reg.iter().filter_map(|t| m.present[*t].map(|v| (*t, v))).collect()
}

fn history(rng: &mut Rng, rep: &mut Report, case_no: u64, len: usize) {
    rep.evaluations += 1;
    let mut world = World::empty();
    let mut table: MetaTable<dyn MObj> = MetaTable::new();
    let mut m = M { reg: Vec::new(), present: [None; NO], present_dyn1: [false; NO] };
    let mut log: Vec<String> = Vec::new();
    let mut failure: Option<(String, String)> = None;
    let mut repeated_reg = false;
    let mut hh = 0x17u64;
    macro_rules! fail {
        ($k:expr, $($a:tt)*) => {{ if failure.is_none() { failure = Some(($k.to_string(), format!($($a)*))); } }};
    }
    for _ in 0..len {
        let t = rng.below(NO);
        let v = 1 + rng.next() % 200;
        let op = rng.below(14);
        let desc: String;
        match op {
            0..=2 => {
                desc = format!("register::<O{}>()", t);
                with_o!(t, T => table.register::<T>());
                if m.reg.contains(&t) {
                    repeated_reg = true;
                } else {
                    m.reg.push(t);
                }
            }
            3 | 4 => {
                desc = format!("insert(O{} = {})", t, v);
                with_o!(t, T => world.insert(T::new(v)));
                m.present[t] = Some(norm(t, v));
            }
            5 => {
                desc = format!("remove::<O{}>()", t);
                with_o!(t, T => { world.remove::<T>(); });
                m.present[t] = None;
            }
            6 => {
                // the same type under another dynamic id is a different slot: never iterated
                desc = format!("insert_by_id(O{} #1)", t);
                with_o!(t, T => world.insert_by_id(ResourceId::new_with_dynamic_id::<T>(1), T::new(v + 500)));
                m.present_dyn1[t] = true;
            }
            7 | 8 => {
                // get / get_mut on a present resource
                let mutable = op == 8;
                desc = format!("get{}(O{})", if mutable { "_mut" } else { "" }, t);
                let id = with_o!(t, T => ResourceId::new::<T>());
                let registered = m.reg.contains(&t);
                if let Some(res) = world.get_mut_raw(id) {
                    let res_addr = res as *const dyn Resource as *const () as usize;
                    let want = m.present[t].unwrap_or(0);
                    if mutable {
                        match table.get_mut(res) {
                            Some(o) => {
                                if !registered {
                                    fail!("get_unregistered", "{}: get_mut returned an object for a type that was never registered", desc);
                                } else if o.tag() != t as u32 || o.addr() != res_addr {
                                    fail!("wrong_object", "{}: the object reports tag {} / address {:#x}, the resource is O{} at {:#x}", desc, o.tag(), o.addr(), t, res_addr);
                                } else {
                                    let nv = o.poke();
                                    if nv != bump(t, want) {
                                        fail!("wrong_value", "{}: poke through the trait object returned {}, expected {}", desc, nv, bump(t, want));
                                    }
                                    m.present[t] = Some(nv);
                                }
                            }
                            None => {
                                if registered {
                                    fail!("get_registered_none", "{}: get_mut returned None for a registered type", desc);
                                }
                            }
                        }
                    } else {
                        match table.get(&*res) {
                            Some(o) => {
                                if !registered {
                                    fail!("get_unregistered", "{}: get returned an object for a type that was never registered", desc);
                                } else if o.tag() != t as u32 || o.addr() != res_addr || o.peek() != want {
                                    fail!("wrong_object", "{}: the object reports tag {} / address {:#x} / value {}, the resource is O{} at {:#x} with value {}", desc, o.tag(), o.addr(), o.peek(), t, res_addr, want);
                                }
                            }
                            None => {
                                if registered {
                                    fail!("get_registered_none", "{}: get returned None for a registered type", desc);
                                }
                            }
                        }
                    }
                    // and the typed view agrees
                    let typed = with_o!(t, T => world.fetch::<T>().peek());
                    if Some(typed) != m.present[t] {
                        fail!("typed_view_differs", "{}: typed fetch reads {}, model {:?}", desc, typed, m.present[t]);
                    }
                }
            }
            9 | 10 => {
                // iter: shared borrows of exactly the registered & present types, first-registration
                // order - consumed through `collect` or through one of the standard adaptors
                let full = expected_iter(&m);
                let adaptor = rng.below(8);
                let k = rng.range(1, 4);
                let want: Vec<(usize, u64)> = match adaptor {
                    0 => full.iter().cloned().skip(k).collect(),
                    1 => full.iter().cloned().step_by(k).collect(),
                    2 => full.iter().cloned().nth(k).into_iter().collect(),
                    3 => full.iter().cloned().last().into_iter().collect(),
                    4 => full.iter().cloned().take(k).collect(),
                    _ => full.clone(),
                };
                desc = match adaptor {
                    0 => format!("iter().skip({})", k),
                    1 => format!("iter().step_by({})", k),
                    2 => format!("iter().nth({})", k),
                    3 => "iter().last()".to_string(),
                    4 => format!("iter().take({})", k),
                    _ => "iter()".to_string(),
                };
                let r = catch_unwind(AssertUnwindSafe(|| {
                    let it = table.iter(&world);
                    let items: Vec<_> = match adaptor {
                        0 => it.skip(k).collect(),
                        1 => it.step_by(k).collect(),
                        2 => {
                            let mut it = it;
                            it.nth(k).into_iter().collect()
                        }
                        3 => it.last().into_iter().collect(),
                        4 => it.take(k).collect(),
                        _ => it.collect(),
                    };
                    let got: Vec<(usize, u64)> = items.iter().map(|o| (o.tag() as usize, o.peek())).collect();
                    let mut addr_ok = true;
                    for o in &items {
                        let t = o.tag() as usize;
                        // SAFETY: read-only inspection of the cell
                        let id = with_o!(t, T => ResourceId::new::<T>());
                        let cell = unsafe { world.try_fetch_internal(id) }.unwrap();
                        let b = cell.borrow();
                        let a = &**b as *const dyn Resource as *const () as usize;
                        if a != o.addr() {
                            addr_ok = false;
                        }
                    }
                    // borrow interplay while the items are alive
                    let mut interplay = String::new();
                    if let Some(o) = items.first() {
                        let t = o.tag() as usize;
                        let w = catch_unwind(AssertUnwindSafe(|| with_o!(t, T => world.try_fetch_mut::<T>().is_some())));
                        match w {
                            Ok(_) => interplay = format!("try_fetch_mut::<O{}> succeeded while iter() holds a shared borrow of it", t),
                            Err(p) => {
                                if classify(&payload_str(&*p)) != PanicKind::BorrowConflict {
                                    interplay = "unexpected panic kind".into();
                                }
                            }
                        }
                        let rd = catch_unwind(AssertUnwindSafe(|| with_o!(t, T => world.try_fetch::<T>().is_some())));
                        if rd.is_err() {
                            interplay = format!("try_fetch::<O{}> refused while iter() only holds shared borrows", t);
                        }
                    }
                    (got, addr_ok, interplay)
                }));
                match r {
                    Ok((got, addr_ok, interplay)) => {
                        if got != want {
                            fail!("iter_sequence", "{} yielded (tag, value) {:?}, expected {:?} (registered {:?}, present {:?})", desc, got, want, m.reg, full);
                        } else if !addr_ok {
                            fail!("wrong_object", "iter(): an item's address differs from its resource");
                        } else if !interplay.is_empty() {
                            fail!("iter_borrow_interplay", "{}", interplay);
                        }
                    }
                    Err(p) => fail!("iter_panicked", "iter() panicked: {}", payload_str(&*p)),
                }
            }
            11 => {
                let full = expected_iter(&m);
                let adaptor = rng.below(6);
                let k = rng.range(1, 3);
                let want: Vec<(usize, u64)> = match adaptor {
                    0 => full.iter().cloned().skip(k).collect(),
                    1 => full.iter().cloned().step_by(k).collect(),
                    2 => full.iter().cloned().nth(k).into_iter().collect(),
                    _ => full.clone(),
                };
                desc = match adaptor {
                    0 => format!("iter_mut().skip({}) + poke", k),
                    1 => format!("iter_mut().step_by({}) + poke", k),
                    2 => format!("iter_mut().nth({}) + poke", k),
                    _ => "iter_mut() + poke".to_string(),
                };
                let r = catch_unwind(AssertUnwindSafe(|| {
                    let it = table.iter_mut(&world);
                    let mut items: Vec<_> = match adaptor {
                        0 => it.skip(k).collect(),
                        1 => it.step_by(k).collect(),
                        2 => {
                            let mut it = it;
                            it.nth(k).into_iter().collect()
                        }
                        _ => it.collect(),
                    };
                    let got: Vec<(usize, u64)> = items.iter().map(|o| (o.tag() as usize, o.peek())).collect();
                    let mut interplay = String::new();
                    if let Some(o) = items.first() {
                        let t = o.tag() as usize;
                        let rd = catch_unwind(AssertUnwindSafe(|| with_o!(t, T => world.try_fetch::<T>().is_some())));
                        if rd.is_ok() {
                            interplay = format!("try_fetch::<O{}> succeeded while iter_mut() holds an exclusive borrow of it", t);
                        }
                    }
                    for o in items.iter_mut() {
                        o.poke();
                    }
                    (got, interplay)
                }));
                match r {
                    Ok((got, interplay)) => {
                        if got != want {
                            fail!("iter_sequence", "{} yielded (tag, value) {:?}, expected {:?} (registered {:?}, present {:?})", desc, got, want, m.reg, full);
                        } else if !interplay.is_empty() {
                            fail!("iter_borrow_interplay", "{}", interplay);
                        }
                        for (t, v) in want {
                            m.present[t] = Some(bump(t, v));
                        }
                    }
                    Err(p) => fail!("iter_panicked", "iter_mut() panicked: {}", payload_str(&*p)),
                }
            }
            12 => {
                // iteration while a typed exclusive guard is alive on one of the iterated types
                let want = expected_iter(&m);
                desc = "iter() under a live FetchMut".to_string();
                if let Some(&(t, _)) = want.get(rng.below(want.len().max(1))) {
                    let k = want.iter().position(|x| x.0 == t).unwrap();
                    let r = with_o!(t, T => {
                        let _g = world.fetch_mut::<T>();
                        catch_unwind(AssertUnwindSafe(|| {
                            let mut n = 0usize;
                            for _ in table.iter(&world) { n += 1; }
                            n
                        }))
                    });
                    match r {
                        Ok(n) => fail!("iter_aliasing", "iter() walked {} items although O{} (item #{}) is exclusively borrowed", n, t, k),
                        Err(p) => {
                            if classify(&payload_str(&*p)) != PanicKind::BorrowConflict {
                                fail!("iter_panicked", "iter() under a live FetchMut panicked with {}", payload_str(&*p));
                            }
                        }
                    }
                }
            }
            _ => {
                // typed poke: changes must be visible through the table afterwards
                desc = format!("typed write O{}", t);
                if m.present[t].is_some() {
                    let nv = with_o!(t, T => world.fetch_mut::<T>().poke());
                    m.present[t] = Some(nv);
                }
            }
        }
        hh = mix(hh, crate::rng::hash_str(&desc));
        log.push(desc);
        if log.len() > 40 {
            log.remove(0);
        }
        rep.metric("ops", 1);
        if failure.is_some() {
            break;
        }
    }
    if let Some((k, msg)) = failure {
        rep.violation(&k, &msg, case_no, J::obj().set("last_ops", J::from(log.clone())).set("registered", J::from(m.reg.clone())));
        return;
    }
    let absent_registered = m.reg.iter().any(|t| m.present[*t].is_none());
    if repeated_reg && absent_registered {
        rep.nontrivial(hh);
    }
    if rep.samples.len() < rep.max_samples && repeated_reg && absent_registered {
        rep.sample(
            J::obj()
                .set("case", case_no)
                .set("history_tail", J::from(log.clone()))
                .set("registered_order", J::from(m.reg.clone()))
                .set("final_iteration", J::Arr(expected_iter(&m).iter().map(|(t, v)| J::Str(format!("O{}={}", t, v))).collect())),
        );
    }
    let _ = TypeId::of::<O0>();
}

impl BadObj for O0 {
    fn hello(&self) -> u64 {
        0
    }
}
unsafe impl CastFrom<O0> for dyn BadObj {
    fn cast(_t: *mut O0) -> *mut Self {
        // a zero-sized value "somewhere else"
        static mut ELSEWHERE: O0 = O0;
        std::ptr::addr_of_mut!(ELSEWHERE)
    }
}

/// the same for a zero-sized resource type (its box is dangling, the address still has to match)
fn bad_cast_zst(rep: &mut Report, case_no: u64) {
    rep.evaluations += 1;
    for path in 0..4 {
        let r = catch_unwind(AssertUnwindSafe(|| {
            let mut t: MetaTable<dyn BadObj> = MetaTable::new();
            t.register::<O0>();
            let mut w = World::empty();
            w.insert(O0);
            match path {
                0 => {
                    let res = w.get_mut_raw(ResourceId::new::<O0>()).unwrap();
                    t.get(&*res).map(|o| o.hello()).into_iter().collect::<Vec<u64>>()
                }
                1 => {
                    let res = w.get_mut_raw(ResourceId::new::<O0>()).unwrap();
                    t.get_mut(res).map(|o| o.hello()).into_iter().collect::<Vec<u64>>()
                }
                2 => t.iter(&w).map(|o| o.hello()).collect::<Vec<u64>>(),
                _ => t.iter_mut(&w).map(|o| o.hello()).collect::<Vec<u64>>(),
            }
        }));
        let what = ["get", "get_mut", "iter", "iter_mut"][path];
        match r {
            Err(p) => {
                let msg = payload_str(&*p);
                let _ = msg; // rejected by a panic: the wording is not part of the property
                rep.metric("bad_cast_zst_rejected", 1);
            }
            Ok(x) => {
                if !x.is_empty() {
                    rep.violation("bad_cast_accepted:zero_sized", &format!("a CastFrom for a zero-sized type that returns a different address was accepted by {} and yielded {:?}", what, x), case_no, J::Null);
                }
            }
        }
    }
}

/// a cast implementation that changes the address is rejected by a panic
fn bad_cast(rep: &mut Report, case_no: u64) {
    rep.evaluations += 1;
    let r = catch_unwind(AssertUnwindSafe(|| {
        let mut t: MetaTable<dyn BadObj> = MetaTable::new();
        t.register::<O2>();
        let mut w = World::empty();
        w.insert(O2::new(5));
        let res = w.get_mut_raw(ResourceId::new::<O2>()).unwrap();
        let a = t.get(&*res).map(|o| o.hello());
        let b: Vec<u64> = t.iter(&w).map(|o| o.hello()).collect();
        (a, b)
    }));
    match r {
        Err(p) => {
            let msg = payload_str(&*p);
            let _ = msg; // rejected by a panic: the wording is not part of the property
            rep.metric("bad_cast_rejected", 1);
        }
        Ok(x) => rep.violation("bad_cast_accepted", &format!("a CastFrom implementation that returns a different address was accepted and yielded {:?}", x), case_no, J::Null),
    }
}

/// Several threads use one table at the same time (a meta table is `Sync`: it is meant to live
/// in the world and to be read by systems running in parallel): every lookup must still denote
/// the very resource it was given, with the methods of its concrete type.
#[cfg(not(feature = "parallel"))]
fn concurrent(_: &mut Rng, rep: &mut Report, _: u64, _: bool) {
    // without the `parallel` feature resources need not be `Sync`: a world cannot be shared
    rep.metric("concurrent_cases_skipped_no_parallel_feature", 1);
}

#[cfg(feature = "parallel")]
fn concurrent(rng: &mut Rng, rep: &mut Report, case_no: u64, small: bool) {
    use std::sync::atomic::{AtomicBool, AtomicUsize, Ordering::SeqCst};
    use std::sync::Mutex;
    rep.evaluations += 1;
    let mut world = World::empty();
    let mut table: MetaTable<dyn MObj> = MetaTable::new();
    let mut reg: Vec<usize> = Vec::new();
    let mut present: [Option<u64>; NO] = [None; NO];
    // registration with repeats, a random subset present
    let nreg = rng.range(2, NO);
    for _ in 0..nreg + rng.below(4) {
        let t = rng.below(NO);
        with_o!(t, T => table.register::<T>());
        if !reg.contains(&t) {
            reg.push(t);
        }
    }
    for t in 0..NO {
        if rng.chance(3, 4) {
            let v = 1 + rng.next() % 200;
            with_o!(t, T => world.insert(T::new(v)));
            present[t] = Some(norm(t, v));
        }
    }
    // (`small`: the interpreter runs this too - a few lookups from two threads)
    let threads = if small { 2 } else { rng.range(2, 6) };
    let rounds = if small { rng.range(4, 12) } else { rng.range(50, 400) };
    let seeds: Vec<u64> = (0..threads).map(|_| rng.next()).collect();
    let failures: Mutex<Vec<(String, String)>> = Mutex::new(Vec::new());
    let lookups = AtomicUsize::new(0);
    let go = AtomicBool::new(false);
    let ready = AtomicUsize::new(0);
    let (world_r, table_r, reg_r, present_r) = (&world, &table, &reg, &present);
    std::thread::scope(|sc| {
        for seed in seeds.iter().cloned() {
            let (failures, lookups, go, ready) = (&failures, &lookups, &go, &ready);
            sc.spawn(move || {
                let mut rng = Rng::new(seed);
                ready.fetch_add(1, SeqCst);
                while !go.load(SeqCst) {
                    std::thread::yield_now();
                }
                let r = catch_unwind(AssertUnwindSafe(|| {
                    for _ in 0..rounds {
                        if rng.chance(1, 8) {
                            // shared iteration next to the lookups
                            let got: Vec<(usize, u64)> = table_r.iter(world_r).map(|o| (o.tag() as usize, o.peek())).collect();
                            let want: Vec<(usize, u64)> = reg_r.iter().filter_map(|t| present_r[*t].map(|v| (*t, v))).collect();
                            if got != want {
                                failures.lock().unwrap().push(("concurrent_iter_differs".into(), format!("iter() next to concurrent lookups yielded {:?}, expected {:?}", got, want)));
                                return;
                            }
                            continue;
                        }
                        let t = rng.below(NO);
                        let registered = reg_r.contains(&t);
                        let bad: Option<String> = with_o!(t, T => {
                            match world_r.try_fetch::<T>() {
                                None => None,
                                Some(g) => {
                                    let res: &dyn Resource = &*g;
                                    let res_addr = res as *const dyn Resource as *const () as usize;
                                    lookups.fetch_add(1, SeqCst);
                                    match table_r.get(res) {
                                        Some(o) => {
                                            if !registered {
                                                Some(format!("get(O{}) returned an object for a type that was never registered", t))
                                            } else if o.tag() != t as u32 || o.addr() != res_addr || Some(o.peek()) != present_r[t] {
                                                Some(format!("get(O{}): the object reports tag {} / address {:#x} / value {}, the resource is O{} at {:#x} with value {:?}", t, o.tag(), o.addr(), o.peek(), t, res_addr, present_r[t]))
                                            } else {
                                                None
                                            }
                                        }
                                        None => if registered { Some(format!("get(O{}) returned None for a registered type", t)) } else { None },
                                    }
                                }
                            }
                        });
                        if let Some(m) = bad {
                            failures.lock().unwrap().push(("concurrent_get_wrong_object".into(), m));
                            return;
                        }
                    }
                }));
                if let Err(p) = r {
                    failures.lock().unwrap().push(("concurrent_get_panicked".into(), format!("a lookup on a shared table panicked: {}", payload_str(&*p))));
                }
            });
        }
        while ready.load(SeqCst) < threads {
            std::thread::yield_now();
        }
        go.store(true, SeqCst);
    });
    rep.metric("concurrent_cases", 1);
    rep.metric("concurrent_lookups", lookups.load(SeqCst) as i64);
    rep.metric_max("threads_on_one_table", threads as i64);
    let f = failures.into_inner().unwrap();
    if let Some((k, m)) = f.first() {
        rep.violation(k, m, case_no, J::obj().set("registered", J::from(reg.iter().map(|t| format!("O{}", t)).collect::<Vec<_>>())).set("threads", threads).set("rounds", rounds));
    } else {
        rep.nontrivial(mix(0xc0c0, mix(threads as u64, reg.len() as u64 * 1000 + present.iter().flatten().count() as u64)));
    }
}

/// A cast that is right most of the time: the address check is made on every conversion, not
/// only on the first one of a type.
pub trait MoodyObj {
    fn hello(&self) -> u64;
}
impl MoodyObj for O3 {
    fn hello(&self) -> u64 {
        self.n
    }
}
static MOODY_BAD: std::sync::atomic::AtomicBool = std::sync::atomic::AtomicBool::new(false);
unsafe impl CastFrom<O3> for dyn MoodyObj {
    fn cast(t: *mut O3) -> *mut Self {
        if MOODY_BAD.load(std::sync::atomic::Ordering::SeqCst) {
            static mut OTHER: O3 = O3 { n: 77, pad: [3; 4] };
            std::ptr::addr_of_mut!(OTHER)
        } else {
            t
        }
    }
}

fn moody_cast(rep: &mut Report, case_no: u64) {
    use std::sync::atomic::Ordering::SeqCst;
    rep.evaluations += 1;
    let mut t: MetaTable<dyn MoodyObj> = MetaTable::new();
    t.register::<O3>();
    let mut w = World::empty();
    w.insert(O3::new(5));
    MOODY_BAD.store(false, SeqCst);
    // some good conversions first, through every path
    let good = catch_unwind(AssertUnwindSafe(|| {
        let a = t.get(&*w.fetch::<O3>() as &dyn Resource).map(|o| o.hello());
        let b: Vec<u64> = t.iter(&w).map(|o| o.hello()).collect();
        let c: Vec<u64> = t.iter_mut(&w).map(|o| o.hello()).collect();
        let res = w.get_mut_raw(ResourceId::new::<O3>()).unwrap();
        let d = t.get_mut(res).map(|o| o.hello());
        (a, b, c, d)
    }));
    if let Err(p) = good {
        rep.violation("good_cast_rejected", &format!("a correct cast was rejected: {}", payload_str(&*p)), case_no, J::Null);
        return;
    }
    // now the same type's cast misbehaves: every path must reject it
    MOODY_BAD.store(true, SeqCst);
    for path in 0..4 {
        let r = catch_unwind(AssertUnwindSafe(|| match path {
            0 => t.get(&*w.fetch::<O3>() as &dyn Resource).map(|o| o.hello()),
            1 => t.iter(&w).map(|o| o.hello()).next(),
            2 => t.iter_mut(&w).map(|o| o.hello()).next(),
            _ => {
                let res = w.get_mut_raw(ResourceId::new::<O3>()).unwrap();
                t.get_mut(res).map(|o| o.hello())
            }
        }));
        // Either the conversion is rejected by a panic, or the table does not consult the cast at
        // this point at all (the `nightly` implementation reads the vtable once, at registration)
        // and hands out the very resource. What must never happen: the *other* object (n == 77)
        // comes out.
        if let Ok(x) = r {
            if x != Some(5) {
                MOODY_BAD.store(false, SeqCst);
                rep.violation(
                    "bad_cast_accepted",
                    &format!("after correct conversions of the same type a cast that returns a different address was followed by {}: it yielded {:?}, not the resource (5)", ["get", "iter", "iter_mut", "get_mut"][path], x),
                    case_no,
                    J::Null,
                );
                return;
            }
            rep.metric("bad_cast_not_consulted_the_resource_itself_came_out", 1);
        }
    }
    MOODY_BAD.store(false, SeqCst);
    rep.metric("bad_cast_after_good_ones_rejected", 1);
}

fn bad_cast_case(rep: &mut Report) {
    bad_cast(rep, 49);
    bad_cast_zst(rep, 49);
    moody_cast(rep, 49);
}

pub fn run(args: &Args) -> i32 {
    let mut rep = Report::new(args);
    let small = args.has("--small");
    let n = args.count(128_000, 1_600_000);
    let range: Vec<u64> = match args.case {
        Some(c) => vec![c],
        None => (0..n).collect(),
    };
    for c in range {
        if rep.time_up() {
            break;
        }
        let mut rng = Rng::new(args.case_seed(c));
        if c % 50 == 49 {
            guard_case(&mut rep, c, bad_cast_case);
        } else if c % 50 == 24 || args.has("--concurrent-only") {
            guard_case(&mut rep, c, |rep| concurrent(&mut rng, rep, c, small));
        } else {
            guard_case(&mut rep, c, |rep| history(&mut rng, rep, c, if small { 25 } else { 70 }));
        }
    }
    rep.finish();
    0
}
