//! C15 – async dispatcher: completion is observable and never overtaken.

use std::sync::atomic::{AtomicBool, Ordering::SeqCst};
use std::sync::Arc;
use std::time::{Duration, Instant};

use crate::ctx::*;
use crate::exec::*;
use crate::gen::*;
use crate::json::J;
use crate::oracle::*;
use crate::plan::*;
use crate::props::sched::POOL_SIZES;
use crate::report::*;
use crate::res::*;
use crate::rng::{mix, Rng};
use crate::sys::instantiate;

/// Parks one system inside `run` (data held) until the harness opens the latch.
pub struct Latch {
    target: u32,
    pub entered: AtomicBool,
    pub open: AtomicBool,
    pub timed_out: AtomicBool,
    cap: Duration,
}

impl Latch {
    pub fn new(target: u32, cap: Duration) -> Latch {
        Latch { target, entered: AtomicBool::new(false), open: AtomicBool::new(false), timed_out: AtomicBool::new(false), cap }
    }
}

impl Driver for Latch {
    fn gate(&self, _ctx: &Ctx, uid: u32, g: Gate) {
        if uid != self.target || g != Gate::PostRun || self.entered.swap(true, SeqCst) {
            return;
        }
        if !wait_until(Instant::now() + self.cap, || self.open.load(SeqCst)) {
            self.timed_out.store(true, SeqCst);
        }
    }
    fn name(&self) -> String {
        format!("latch(u{})", self.target)
    }
}

#[derive(Clone, Copy, Debug, PartialEq, Eq)]
enum Op {
    Dispatch,
    DispatchHeld,
    Running,
    Wait,
    WaitNoTl,
    World,
    WorldMut,
    Setup,
    /// the common idiom `while d.running() { .. }`: completion is first seen by running()
    PollUntilDone,
    /// the deprecated spellings of world() / world_mut()
    Res,
    MutRes,
}

const OPS: [Op; 16] = [Op::Res, Op::MutRes, Op::Dispatch, Op::Dispatch, Op::Dispatch, Op::DispatchHeld, Op::DispatchHeld, Op::Running, Op::Running, Op::Wait, Op::WaitNoTl, Op::World, Op::WorldMut, Op::Setup, Op::PollUntilDone, Op::PollUntilDone];
const BLOCKING: [Op; 8] = [Op::Wait, Op::WaitNoTl, Op::World, Op::WorldMut, Op::Setup, Op::Dispatch, Op::Res, Op::MutRes];

const PROFILES: [Profile; 5] = [Profile::Tiny, Profile::Dense, Profile::Mixed, Profile::Batchy, Profile::SparseWide];

fn strip_tl(plan: &Plan) -> Plan {
    Plan { items: plan.items.iter().filter(|i| !matches!(i, Item::Tl(_))).cloned().collect() }
}

fn case(rng: &mut Rng, pools: &mut Pools, rep: &mut Report, case_no: u64) {
    let pool_size = *rng.pick(&POOL_SIZES);
    let pool = pools.get(pool_size);
    // every 6th history (pools of 4+ threads) is driven by a *worker of the dispatcher's own pool*:
    // the dispatcher is built, used and dropped inside `pool.install`
    if case_no % 6 == 2 && pool_size >= 4 {
        rep.metric("histories_driven_by_a_worker_of_the_own_pool", 1);
        let p2 = pool.clone();
        p2.install(|| case_body(rng, pool, pool_size, rep, case_no));
    } else {
        case_body(rng, pool, pool_size, rep, case_no);
    }
}

fn case_body(rng: &mut Rng, pool: crate::sys::Pool, pool_size: usize, rep: &mut Report, case_no: u64) {
    let profile = *rng.pick(&PROFILES);
    let mut c = cfg_for(profile, rng);
    c.n = (c.n.0.min(2), c.n.1.min(12));
    c.tl = (0, 2);
    let plan = if case_no % 40 == 39 {
        // a plan with several hundred stages: every system writes the same resource
        let n = rng.range(257, 330);
        let sl = Slot::new(rng.below(NTYPES), rng.below(NDYN));
        Plan {
            items: (0..n)
                .map(|i| Item::Sys(SysSpec { uid: i as u32 + 1, name: format!("s{}", i + 1), deps: vec![], reads: vec![], writes: vec![sl], time: 3, kind: Kind::Dyn }))
                .collect(),
        }
    } else {
        gen_with(rng, &c)
    };
    rep.evaluations += 1;
    let n_uids = plan.n_uids();
    // completions one dispatch adds: every ordinary leaf system, times its multiplicity
    let per_uid = expected_counts(&plan, DMode::Par, n_uids);
    let mut leafs: Vec<u32> = Vec::new();
    let mut top_leafs: Vec<u32> = Vec::new();
    plan.walk(&mut |it, d| {
        if let Item::Sys(s) = it {
            leafs.push(s.uid);
            if d == 0 {
                top_leafs.push(s.uid);
            }
        }
    });
    let per: u64 = leafs.iter().map(|u| per_uid[*u as usize] as u64).sum();
    let tls: Vec<u32> = plan.tls().iter().map(|t| t.uid).collect();
    let hist_len = rng.range(3, 15);
    let (ev, _) = plan_runs(&plan);
    let ctx = Ctx::new(n_uids.max(1), (ev + 8) * (hist_len + 2) + 64);
    let b = match std::panic::catch_unwind(std::panic::AssertUnwindSafe(|| instantiate(&plan, &ctx, Some(&pool)))) {
        Ok(b) => b,
        Err(_) => {
            rep.inconclusive += 1;
            return;
        }
    };
    let mut ad = b.build_async(crate::res::full_world_with(plan.slots_used().into_iter()));
    ctx.set_mode(Mode::Run);
    ctx.arm(Arc::new(Jitter { seed: rng.next(), level: 0 }));
    let caller = tid();
    let mut dispatched = 0u64;
    let mut waits = 0u64;
    let mut history: Vec<String> = Vec::new();
    let mut problems: Vec<(String, String)> = Vec::new();
    let mut running_true_seen = 0usize;
    let mut held_polls = 0usize;
    let mut inconclusive = false;

    macro_rules! settled {
        ($what:expr) => {{
            let act = ctx.active.load(SeqCst);
            let fin = ctx.finished.load(SeqCst);
            if act != 0 {
                problems.push(("still_running_after_return".into(), format!("{} returned while {} system(s) were still inside run (history {:?})", $what, act, history)));
            }
            if fin != dispatched * per {
                problems.push((
                    "unfinished_after_return".into(),
                    format!("{} returned with {} system completions, {} dispatches x {} systems = {} expected (history {:?})", $what, fin, dispatched, per, dispatched * per, history),
                ));
            }
        }};
    }

    let do_op = |op: Op, ad: &mut shred::AsyncDispatcher<'static, shred::World>, ctx: &Arc<Ctx>| match op {
        Op::Dispatch | Op::DispatchHeld => ad.dispatch(),
        Op::Running => {
            let _ = ad.running();
        }
        Op::Wait => {
            ctx.ev(Ev::Mark, 0, 1);
            ad.wait();
            ctx.ev(Ev::Mark, 0, 2);
        }
        Op::WaitNoTl => ad.wait_without_tl(),
        Op::World => {
            let _ = ad.world();
        }
        Op::WorldMut => {
            let _ = ad.world_mut();
        }
        Op::Setup => ad.setup(),
        Op::PollUntilDone => {}
        #[allow(deprecated)]
        Op::Res => {
            let _ = ad.res();
        }
        #[allow(deprecated)]
        Op::MutRes => {
            let _ = ad.mut_res();
        }
    };

    for _ in 0..hist_len {
        if !problems.is_empty() || inconclusive {
            break;
        }
        let op = *rng.pick(&OPS);
        match op {
            Op::DispatchHeld if !top_leafs.is_empty() => {
                let target = *rng.pick(&top_leafs);
                let latch = Arc::new(Latch { target, entered: AtomicBool::new(false), open: AtomicBool::new(false), timed_out: AtomicBool::new(false), cap: Duration::from_secs(8) });
                // the previous dispatch (if any) completes inside dispatch(); the latch is armed first so
                // that it can only catch the new one – arm after making sure nothing is running
                ad.wait_without_tl();
                settled!("wait_without_tl");
                ctx.arm(latch.clone());
                ad.dispatch();
                dispatched += 1;
                history.push(format!("dispatch[held u{}]", target));
                if !wait_until(Instant::now() + Duration::from_secs(8), || latch.entered.load(SeqCst)) {
                    inconclusive = true;
                    latch.open.store(true, SeqCst);
                    break;
                }
                // a system is provably inside run: running() must say so, however often it is asked
                for _ in 0..rng.range(1, 20) {
                    held_polls += 1;
                    if !ad.running() {
                        problems.push(("running_false_while_held".into(), format!("running() returned false while u{} is parked inside run (history {:?})", target, history)));
                        break;
                    }
                    running_true_seen += 1;
                }
                history.push("running()*".into());
                // a blocking accessor while the system is parked: a helper opens the latch only after
                // the main thread has announced that it is about to block
                let follow = *rng.pick(&BLOCKING);
                let about = AtomicBool::new(false);
                std::thread::scope(|s| {
                    s.spawn(|| {
                        wait_until(Instant::now() + Duration::from_secs(8), || about.load(SeqCst));
                        // now and then the system stays parked for most of a second while the
                        // caller is blocked (an accessor that waits must wait that long)
                        if case_no % 97 == 5 {
                            std::thread::sleep(Duration::from_millis(700));
                        } else {
                            std::thread::sleep(Duration::from_micros(300 + (target as u64 % 7) * 200));
                        }
                        latch.open.store(true, SeqCst);
                    });
                    about.store(true, SeqCst);
                    do_op(follow, &mut ad, &ctx);
                });
                history.push(format!("{:?}[while held]", follow));
                if latch.timed_out.load(SeqCst) {
                    inconclusive = true;
                    break;
                }
                match follow {
                    Op::Dispatch => {
                        // the second dispatch may only start after the first is complete
                        let fin = ctx.finished.load(SeqCst);
                        if fin < dispatched * per {
                            problems.push(("dispatch_overtook".into(), format!("a second dispatch() returned while the previous one had only {} of {} completions (history {:?})", fin, dispatched * per, history)));
                        }
                        dispatched += 1;
                    }
                    Op::Wait => {
                        waits += 1;
                        settled!("wait");
                    }
                    other => settled!(format!("{:?}", other)),
                }
                ctx.arm(Arc::new(Jitter { seed: rng.next(), level: 0 }));
            }
            Op::Dispatch | Op::DispatchHeld => {
                let before = dispatched;
                ad.dispatch();
                dispatched += 1;
                history.push("dispatch".into());
                let fin = ctx.finished.load(SeqCst);
                if fin < before * per {
                    problems.push(("dispatch_overtook".into(), format!("dispatch() #{} returned while earlier dispatches had only {} of {} completions (history {:?})", dispatched, fin, before * per, history)));
                }
            }
            Op::Running => {
                let r = ad.running();
                history.push(format!("running()={}", r));
                if r {
                    running_true_seen += 1;
                } else {
                    // false is only allowed once everything has finished (monotone fact: sampling after is sound)
                    let fin = ctx.finished.load(SeqCst);
                    let act = ctx.active.load(SeqCst);
                    if fin != dispatched * per || act != 0 {
                        problems.push(("running_false_too_early".into(), format!("running() returned false with {} of {} completions and {} active (history {:?})", fin, dispatched * per, act, history)));
                    }
                }
            }
            Op::PollUntilDone => {
                // bounded: a dispatcher that never reports completion is reported, not waited for
                let deadline = Instant::now() + Duration::from_secs(8);
                let mut polls = 0u32;
                let mut done = false;
                while Instant::now() < deadline {
                    polls += 1;
                    if !ad.running() {
                        done = true;
                        break;
                    }
                    running_true_seen += 1;
                    std::thread::yield_now();
                }
                history.push(format!("while running() {{}} ({} polls)", polls));
                if !done {
                    problems.push(("running_never_false".into(), format!("running() kept returning true for 8 s after {} dispatches (history {:?})", dispatched, history)));
                } else {
                    let fin = ctx.finished.load(SeqCst);
                    let act = ctx.active.load(SeqCst);
                    if fin != dispatched * per || act != 0 {
                        problems.push(("running_false_too_early".into(), format!("running() returned false with {} of {} completions and {} active (history {:?})", fin, dispatched * per, act, history)));
                    }
                }
            }
            Op::Wait => {
                do_op(op, &mut ad, &ctx);
                waits += 1;
                history.push("wait".into());
                settled!("wait");
            }
            other => {
                do_op(other, &mut ad, &ctx);
                history.push(format!("{:?}", other));
                settled!(format!("{:?}", other));
            }
        }
    }
    // drain
    ad.wait_without_tl();
    ctx.set_mode(Mode::Build);
    ctx.disarm();
    if inconclusive {
        rep.inconclusive += 1;
        rep.notes.push(format!("case {}: a latch wait hit its watchdog (history {:?})", case_no, history));
        return;
    }
    if ctx.log.overflow.load(SeqCst) {
        rep.inconclusive += 1;
        return;
    }
    let evs = ctx.log.since(0);
    // ---- ordinary systems: every dispatch epoch exactly once, epochs never overtake ----
    if problems.is_empty() && dispatched > 0 {
        let mut f = Vec::new();
        let opts = EOpts { expect_tl: false, caller_thread: caller, outer_mode: "async", top_mult: dispatched as usize , partial: false, tl_mult: None};
        let st = e_oracle(&strip_tl(&plan), &evs, &opts, &mut f);
        rep.metric("windows", st.windows as i64);
        for x in f {
            if x.kind == "outside_dispatch" {
                continue; // no caller-side begin/end marks in an async history
            }
            if x.is("C04") || x.is("C15") {
                problems.push((format!("log:{}", x.kind), x.msg));
            } else {
                rep.metric("other_property_findings", 1);
            }
        }
    }
    // ---- thread-local systems: only inside wait(), on the calling thread, once per wait ----
    let mut in_wait = false;
    let mut tl_runs = vec![0u64; n_uids];
    for e in &evs {
        match e.kind {
            Ev::Mark if e.aux == 1 => in_wait = true,
            Ev::Mark if e.aux == 2 => in_wait = false,
            // thread-local systems registered *inside a batch* belong to the inner dispatcher (see C12 / KF1)
            Ev::TlStart if tls.contains(&e.uid) => {
                tl_runs[e.uid as usize] += 1;
                if !in_wait {
                    problems.push(("tl_outside_wait".into(), format!("thread-local u{} ran outside wait() (history {:?})", e.uid, history)));
                }
                if e.thread != caller {
                    problems.push(("tl_off_caller_thread".into(), format!("thread-local u{} ran on thread {}, wait() was called on thread {}", e.uid, e.thread, caller)));
                }
            }
            Ev::FetchEnter | Ev::RunStart if in_wait && !tls.contains(&e.uid) => {
                // an ordinary system still running after wait() has begun its thread-local part is
                // fine only if it started before; a *start* inside the wait window after the first
                // TlStart would be an overtaking, which the settled! check already catches.
            }
            _ => {}
        }
    }
    for t in &tls {
        if tl_runs[*t as usize] != waits {
            problems.push(("tl_count".into(), format!("thread-local u{} ran {} times, wait() was called {} times (history {:?})", t, tl_runs[*t as usize], waits, history)));
        }
    }
    let _ = ctx.take_violations();
    let mut seen = std::collections::BTreeSet::new();
    for (k, m) in &problems {
        if seen.insert(k.clone()) {
            rep.violation(k, m, case_no, J::obj().set("plan", plan.to_json()).set("pool", pool_size).set("history", J::from(history.clone())));
        }
    }
    rep.metric("async_dispatches", dispatched as i64);
    rep.metric("history_ops", history.len() as i64);
    rep.metric("running_true_observed", running_true_seen as i64);
    rep.metric("polls_while_held", held_polls as i64);
    rep.metric("waits", waits as i64);
    let mut hh = 0x15u64;
    for h in &history {
        hh = mix(hh, crate::rng::hash_str(h));
    }
    if held_polls > 0 && dispatched >= 2 {
        rep.nontrivial(mix(plan.hash(), hh));
    }
    if rep.samples.len() < rep.max_samples && held_polls > 0 && plan.n_systems_total() < 10 {
        rep.sample(
            J::obj()
                .set("case", case_no)
                .set("plan", plan.to_json())
                .set("pool", pool_size)
                .set("history", J::from(history.clone()))
                .set("dispatches", dispatched)
                .set("completions", ctx.finished.load(SeqCst))
                .set("expected_completions", dispatched * per),
        );
    }
}

/// A long async history: running() is seen to go false once, then L-1 frames of dispatch + a
/// blocking accessor, then one more dispatch in which a system is parked inside run while
/// running() is polled. L sits at a counter-width boundary (dispatch numbers, frame counters and
/// completion caches that wrap).
fn case_soak(rng: &mut Rng, pools: &mut Pools, rep: &mut Report, case_no: u64) {
    let mut c = cfg_for(Profile::Tiny, rng);
    c.n = (2, 4);
    c.tl = (0, 1);
    c.p_static = 0;
    let plan = gen_with(rng, &c);
    let pool_size = rng.range(2, 4);
    let pool = pools.get(pool_size);
    let n_uids = plan.n_uids();
    let per_uid = expected_counts(&plan, DMode::Par, n_uids);
    let mut top_leafs: Vec<u32> = Vec::new();
    let mut per = 0u64;
    plan.walk(&mut |it, d| {
        if let Item::Sys(s) = it {
            per += per_uid[s.uid as usize] as u64;
            if d == 0 {
                top_leafs.push(s.uid);
            }
        }
    });
    if top_leafs.is_empty() {
        return;
    }
    rep.evaluations += 1;
    let ctx = Ctx::new(n_uids.max(1), 256);
    let b = match std::panic::catch_unwind(std::panic::AssertUnwindSafe(|| instantiate(&plan, &ctx, Some(&pool)))) {
        Ok(b) => b,
        Err(_) => {
            rep.inconclusive += 1;
            return;
        }
    };
    let mut ad = b.build_async(crate::res::full_world_with(plan.slots_used().into_iter()));
    ctx.set_mode(Mode::Quiet);
    let frames = *rng.pick(&[255usize, 256, 257, 65_535, 65_536, 65_536, 65_537]);
    let mut dispatched = 0u64;
    let mut problem: Option<(String, String)> = None;
    // frame 0: running() is polled until it says false
    ad.dispatch();
    dispatched += 1;
    let deadline = Instant::now() + Duration::from_secs(8);
    let mut done = false;
    while Instant::now() < deadline {
        if !ad.running() {
            done = true;
            break;
        }
        std::thread::yield_now();
    }
    if !done {
        problem = Some(("running_never_false".into(), "running() kept returning true for 8 s after the first dispatch of a long history".into()));
    }
    // frames 1 .. L-1: dispatch, then something that waits for it
    if problem.is_none() {
        for f in 1..frames {
            ad.dispatch();
            dispatched += 1;
            match f % 3 {
                0 => ad.wait(),
                1 => ad.wait_without_tl(),
                _ => {
                    let _ = ad.world();
                }
            }
            if f % 4096 == 0 || f + 1 == frames {
                let (act, fin) = (ctx.active.load(SeqCst), ctx.finished.load(SeqCst));
                if act != 0 || fin != dispatched * per {
                    problem = Some(("unfinished_after_return".into(), format!("frame {} of a long history: a blocking accessor returned with {} completions ({} expected) and {} systems active", f, fin, dispatched * per, act)));
                    break;
                }
            }
        }
    }
    // frame L: a system is parked inside run; running() must say true however often it is asked
    let mut polls = 0usize;
    let mut inconclusive = false;
    if problem.is_none() {
        let target = *rng.pick(&top_leafs);
        let latch = Arc::new(Latch { target, entered: AtomicBool::new(false), open: AtomicBool::new(false), timed_out: AtomicBool::new(false), cap: Duration::from_secs(8) });
        ctx.set_mode(Mode::Run);
        ctx.arm(latch.clone());
        ad.dispatch();
        dispatched += 1;
        if !wait_until(Instant::now() + Duration::from_secs(8), || latch.entered.load(SeqCst)) {
            inconclusive = true;
        } else {
            for _ in 0..rng.range(3, 30) {
                polls += 1;
                if !ad.running() {
                    problem = Some((
                        "running_false_while_held".into(),
                        format!("running() returned false while u{} is parked inside run, in dispatch #{} of a history whose frame 0 ended with running() == false", target, dispatched),
                    ));
                    break;
                }
            }
        }
        latch.open.store(true, SeqCst);
        ad.wait();
        if latch.timed_out.load(SeqCst) {
            inconclusive = true;
        }
        let (act, fin) = (ctx.active.load(SeqCst), ctx.finished.load(SeqCst));
        if problem.is_none() && !inconclusive && (act != 0 || fin != dispatched * per) {
            problem = Some(("unfinished_after_return".into(), format!("wait() at the end of a long history returned with {} completions ({} expected) and {} systems active", fin, dispatched * per, act)));
        }
    }
    ctx.set_mode(Mode::Build);
    ctx.disarm();
    let _ = ctx.take_violations();
    rep.metric("soak_histories", 1);
    rep.metric("soak_frames", dispatched as i64);
    if inconclusive {
        rep.inconclusive += 1;
        rep.notes.push(format!("case {}: a latch wait hit its watchdog at the end of a long history", case_no));
        return;
    }
    match problem {
        Some((k, m)) => rep.violation(&format!("{}:long_history", k), &m, case_no, J::obj().set("plan", plan.to_json()).set("pool", pool_size).set("frames", frames)),
        None => {
            if polls > 0 {
                rep.nontrivial(mix(plan.hash(), 0x50a6 + frames as u64));
            }
        }
    }
}

// ------------------------------------------------------------------------------------------------
// running() while a sibling of a panicked system is still inside run (seeded change C15k)
// ------------------------------------------------------------------------------------------------

/// Replay ids of the probe below (outside the range of generated cases).
pub const SIB_CASE: u64 = 1 << 40;

struct SibState {
    entered: std::sync::atomic::AtomicU32,
    left: std::sync::atomic::AtomicU32,
    release: AtomicBool,
    about_to_panic: AtomicBool,
    gave_up: AtomicBool,
}

#[derive(Default)]
struct SibRes<const I: usize>(u32);

struct SibHeld<const I: usize>(Arc<SibState>);
impl<'a, const I: usize> shred::System<'a> for SibHeld<I> {
    type SystemData = shred::Write<'a, SibRes<I>>;
    fn run(&mut self, mut d: Self::SystemData) {
        d.0 += 1;
        self.0.entered.fetch_add(1, SeqCst);
        let dl = Instant::now() + Duration::from_secs(20);
        while !self.0.release.load(SeqCst) && Instant::now() < dl {
            std::thread::sleep(Duration::from_micros(200));
        }
        self.0.left.fetch_add(1, SeqCst);
    }
}

struct SibFailing {
    st: Arc<SibState>,
    wait_for: u32,
    payload: u32,
}
impl<'a> shred::System<'a> for SibFailing {
    type SystemData = shred::Write<'a, SibRes<9>>;
    fn run(&mut self, _: Self::SystemData) {
        let dl = Instant::now() + Duration::from_secs(5);
        while self.st.entered.load(SeqCst) < self.wait_for {
            if Instant::now() > dl {
                self.st.gave_up.store(true, SeqCst);
                break;
            }
            std::thread::sleep(Duration::from_micros(200));
        }
        self.st.about_to_panic.store(true, SeqCst);
        match self.payload {
            0 => panic!("sibling probe: expected failure"),
            1 => std::panic::panic_any(17u32),
            _ => std::panic::panic_any(String::from("sibling probe: owned payload")),
        }
    }
}

/// One stage, `held + 1` groups: the failing system panics once all the others are inside `run`
/// and stay there until the caller lets them go. Every answer of `running()` obtained while they
/// are provably inside `run` (entered before the call, released only by the polling thread
/// afterwards) must be `true`: the dispatch is running whatever happened to a sibling.
#[cfg(feature = "parallel")]
fn case_sibling(rep: &mut Report, variant: u64) {
    use shred::{DispatcherBuilder, World};
    install_quiet_hook();
    let held = 1 + (variant % 3) as u32;
    let fail_pos = ((variant / 3) % 4) as u32; // registration position of the failing system
    let payload = ((variant / 12) % 3) as u32;
    let poll_ms = [2u64, 10, 40][((variant / 36) % 3) as usize];
    let st = Arc::new(SibState {
        entered: Default::default(),
        left: Default::default(),
        release: AtomicBool::new(false),
        about_to_panic: AtomicBool::new(false),
        gave_up: AtomicBool::new(false),
    });
    let pool = crate::sys::make_pool(held as usize + 2);
    let mut w = World::empty();
    w.insert(SibRes::<0>(0));
    w.insert(SibRes::<1>(0));
    w.insert(SibRes::<2>(0));
    w.insert(SibRes::<9>(0));
    let mut b = DispatcherBuilder::new().with_pool(pool);
    let mut added = 0u32;
    let mut failing_added = false;
    for pos in 0..=held {
        if pos == fail_pos.min(held) && !failing_added {
            b.add(SibFailing { st: st.clone(), wait_for: held, payload }, "failing", &[]);
            failing_added = true;
            continue;
        }
        match added {
            0 => b.add(SibHeld::<0>(st.clone()), "", &[]),
            1 => b.add(SibHeld::<1>(st.clone()), "", &[]),
            _ => b.add(SibHeld::<2>(st.clone()), "", &[]),
        }
        added += 1;
    }
    let mut d = b.build_async(w);
    d.dispatch();
    // wait (bounded) for the failing system to reach its panic
    let dl = Instant::now() + Duration::from_secs(8);
    while !st.about_to_panic.load(SeqCst) && Instant::now() < dl {
        std::thread::sleep(Duration::from_micros(300));
    }
    let mut polls = 0u32;
    let mut bad: Option<String> = None;
    let end = Instant::now() + Duration::from_millis(poll_ms);
    let ready = st.about_to_panic.load(SeqCst) && !st.gave_up.load(SeqCst);
    while ready && Instant::now() < end {
        let inside_before = st.entered.load(SeqCst) == held && st.left.load(SeqCst) == 0;
        let answer = std::panic::catch_unwind(std::panic::AssertUnwindSafe(|| d.running()));
        let inside_after = st.left.load(SeqCst) == 0;
        if inside_before && inside_after {
            polls += 1;
            match answer {
                Ok(true) => {}
                Ok(false) => bad = Some("running() returned false".into()),
                Err(e) => bad = Some(format!("running() panicked ({})", payload_str(&*e))),
            }
        }
        if bad.is_some() {
            break;
        }
        std::thread::sleep(Duration::from_micros(150));
    }
    st.release.store(true, SeqCst);
    // let the job end: the pool's handler receives the payload once every group was joined
    let dl = Instant::now() + Duration::from_secs(10);
    while st.left.load(SeqCst) < st.entered.load(SeqCst) && Instant::now() < dl {
        std::thread::sleep(Duration::from_micros(300));
    }
    let mut handled = 0;
    let dl = Instant::now() + Duration::from_secs(10);
    while Instant::now() < dl {
        handled += crate::sys::take_pool_panics().len();
        if handled > 0 {
            break;
        }
        std::thread::sleep(Duration::from_micros(300));
    }
    let _ = std::panic::catch_unwind(std::panic::AssertUnwindSafe(move || drop(d)));
    let _ = take_panics();
    if let Some(bad) = bad {
        rep.violation(
            "running_not_true_while_sibling_of_panicked_system_runs",
            &format!(
                "async dispatch, one stage with {} groups: a system panicked while {} sibling system(s) were still inside run (not yet released by the harness); {} - the dispatch is still running",
                held + 1, held, bad
            ),
            SIB_CASE + variant,
            J::Null,
        );
    }
    if ready && polls > 0 {
        rep.metric("running_polls_while_sibling_of_panicked_system_inside_run", polls as i64);
        rep.metric("sibling_probe_pool_panics_handled", handled as i64);
        rep.nontrivial(mix(0x15_0000 + variant, 0x51b));
    } else {
        rep.metric("sibling_probe_inconclusive", 1);
    }
}

pub fn run(args: &Args) -> i32 {
    let mut rep = Report::new(args);
    let mut pools = Pools::new();
    let n = args.count(12_800, 160_000);
    let range: Vec<u64> = match args.case {
        Some(c) => vec![c],
        None => (0..n).collect(),
    };
    #[cfg(feature = "parallel")]
    match args.case {
        None => {
            // 108 variants; each shard of a run walks a different window of them
            let first = args.case_seed(0) % 108;
            let many = if n > 20_000 { 108 } else { 12 };
            for i in 0..many {
                let v = (first + i) % 108;
                guard_case(&mut rep, SIB_CASE + v, |rep| case_sibling(rep, v));
            }
        }
        Some(c) if c >= SIB_CASE => guard_case(&mut rep, c, |rep| case_sibling(rep, c - SIB_CASE)),
        _ => {}
    }
    for c in range {
        if c >= SIB_CASE {
            continue;
        }
        if rep.time_up() {
            break;
        }
        let mut rng = Rng::new(args.case_seed(c));
        if c % 200 == 7 {
            guard_case(&mut rep, c, |rep| case_soak(&mut rng, &mut pools, rep, c));
            continue;
        }
        guard_case(&mut rep, c, |rep| case(&mut rng, &mut pools, rep, c));
    }
    rep.finish();
    0
}
