//! C19 – the plan is a deterministic function of the registration sequence, invariant under
//! renaming of systems, injective relabelling of resources and permutation of access lists.

use crate::exec::*;
use crate::gen::*;
use crate::json::{hex, J};
use crate::layout::Layout;
use crate::plan::*;
use crate::report::*;
use crate::res::*;
use crate::rng::{mix, Rng};

use std::collections::{BTreeSet, HashMap};

/// Only the *shape with registration indices* matters: uids are identical across variants.
fn layout_of(plan: &Plan) -> Result<Layout, String> {
    thread_local! {
        static POOL: crate::sys::Pool = crate::sys::make_pool(1);
    }
    POOL.with(|p| build(plan, Some(p), 1, 16).map(|i| i.layout))
}

/// slots that static systems / controllers use (those cannot be relabelled: they are Rust types)
fn fixed_slots(plan: &Plan) -> BTreeSet<Slot> {
    let mut f = BTreeSet::new();
    plan.walk(&mut |it, _| match it {
        Item::Sys(s) => {
            if let Kind::Static(_) = s.kind {
                f.extend(s.reads.iter().cloned());
                f.extend(s.writes.iter().cloned());
            }
        }
        Item::Batch(b) => {
            let a = b.ctl_access();
            f.extend(a.reads.iter().cloned());
            f.extend(a.writes.iter().cloned());
        }
        _ => {}
    });
    f
}

fn map_plan(plan: &Plan, f: &mut dyn FnMut(&mut Item)) -> Plan {
    let mut p = plan.clone();
    fn go(p: &mut Plan, f: &mut dyn FnMut(&mut Item)) {
        for it in p.items.iter_mut() {
            f(it);
            if let Item::Batch(b) = it {
                go(&mut b.inner, f);
            }
        }
    }
    go(&mut p, f);
    p
}

pub fn rename(plan: &Plan, rng: &mut Rng) -> Plan {
    // names are scoped per builder level, so one global injective map is a consistent renaming
    let mut map: HashMap<String, String> = HashMap::new();
    let mut ctr = 0u32;
    let salt = rng.next() % 100_000;
    let styles = ["zz", "A b", "x-", "/q", "ω"];
    let style = styles[rng.below(styles.len())];
    let mut nm = |old: &str| -> String {
        if old.is_empty() {
            return String::new();
        }
        map.entry(old.to_string())
            .or_insert_with(|| {
                ctr += 1;
                // reversed counter so that lexicographic order differs from the original
                format!("{}{}_{}", style, 1_000_000 - ctr, salt)
            })
            .clone()
    };
    map_plan(plan, &mut |it| match it {
        Item::Sys(s) => {
            s.name = nm(&s.name);
            s.deps = s.deps.iter().map(|d| nm(d)).collect();
        }
        Item::Batch(b) => {
            b.name = nm(&b.name);
            b.deps = b.deps.iter().map(|d| nm(d)).collect();
        }
        _ => {}
    })
}

/// Every unnamed system gets a fresh unique name (nobody can depend on it, so only names change).
pub fn name_unnamed(plan: &Plan) -> (Plan, usize) {
    let mut n = 0usize;
    let p = map_plan(plan, &mut |it| match it {
        Item::Sys(s) if s.name.is_empty() => {
            n += 1;
            s.name = format!("anon {}", s.uid);
        }
        Item::Batch(b) if b.name.is_empty() => {
            n += 1;
            b.name = format!("anon-{}", b.uid);
        }
        _ => {}
    });
    (p, n)
}

/// Systems that nobody names as a dependency lose their name.
pub fn unname_unreferenced(plan: &Plan) -> (Plan, usize) {
    let mut referenced = std::collections::HashSet::new();
    plan.walk(&mut |it, _| match it {
        Item::Sys(s) => referenced.extend(s.deps.iter().cloned()),
        Item::Batch(b) => referenced.extend(b.deps.iter().cloned()),
        _ => {}
    });
    let mut n = 0usize;
    let p = map_plan(plan, &mut |it| match it {
        Item::Sys(s) if !s.name.is_empty() && !referenced.contains(&s.name) => {
            n += 1;
            s.name.clear();
        }
        Item::Batch(b) if !b.name.is_empty() && !referenced.contains(&b.name) => {
            n += 1;
            b.name.clear();
        }
        _ => {}
    });
    (p, n)
}

pub fn relabel(plan: &Plan, rng: &mut Rng) -> (Plan, usize) {
    let fixed = fixed_slots(plan);
    let free: Vec<Slot> = Slot::all().filter(|s| !fixed.contains(s)).collect();
    let mut img = free.clone();
    rng.shuffle(&mut img);
    let pi: HashMap<Slot, Slot> = free.iter().cloned().zip(img.iter().cloned()).collect();
    let mut moved = 0usize;
    let p = map_plan(plan, &mut |it| {
        let mut ap = |v: &mut Vec<Slot>| {
            for s in v.iter_mut() {
                if let Some(t) = pi.get(s) {
                    if t != s {
                        moved += 1;
                    }
                    *s = *t;
                }
            }
        };
        match it {
            Item::Sys(s) => {
                if s.kind == Kind::Dyn {
                    ap(&mut s.reads);
                    ap(&mut s.writes);
                }
            }
            Item::Tl(t) => {
                ap(&mut t.reads);
                ap(&mut t.writes);
            }
            _ => {}
        }
    });
    (p, moved)
}

/// Registration attempts that failed (and were caught) registered nothing: without them the same
/// systems are registered in the same order.
pub fn strip_failed(plan: &Plan) -> (Plan, usize) {
    fn go(p: &mut Plan, n: &mut usize) {
        let before = p.items.len();
        p.items.retain(|it| !matches!(it, Item::Failed(_)));
        *n += before - p.items.len();
        for it in p.items.iter_mut() {
            if let Item::Batch(b) = it {
                go(&mut b.inner, n);
            }
        }
    }
    let mut p = plan.clone();
    let mut n = 0;
    go(&mut p, &mut n);
    (p, n)
}

pub fn permute_lists(plan: &Plan, rng: &mut Rng) -> (Plan, usize) {
    let mut changed = 0usize;
    let p = map_plan(plan, &mut |it| {
        if let Item::Sys(s) = it {
            if s.kind == Kind::Dyn {
                let (r0, w0) = (s.reads.clone(), s.writes.clone());
                rng.shuffle(&mut s.reads);
                rng.shuffle(&mut s.writes);
                if r0 != s.reads || w0 != s.writes {
                    changed += 1;
                }
            }
        }
    });
    (p, changed)
}

const PROFILES: [Profile; 12] = [
    Profile::WideStage,
    Profile::SparseWide,
    Profile::Dense,
    Profile::Funnel,
    Profile::DepChains,
    Profile::DepFans,
    Profile::BarrierHeavy,
    Profile::Batchy,
    Profile::Names,
    Profile::Mixed,
    Profile::Tiny,
    Profile::Huge,
];

pub fn gen_case(rng: &mut Rng) -> (Plan, Profile) {
    let profile = *rng.pick(&PROFILES);
    let mut c = cfg_for(profile, rng);
    if profile != Profile::Huge && profile != Profile::WideStage {
        c.max_r = c.max_r.max(3);
        c.max_w = c.max_w.max(2);
    }
    (gen_with(rng, &c), profile)
}

fn case(rng: &mut Rng, rep: &mut Report, case_no: u64, dump: bool) {
    let (plan, profile) = gen_case(rng);
    rep.evaluations += 1;
    rep.metric(&format!("profile_{}", profile.name()), 1);
    let l0 = match layout_of(&plan) {
        Ok(l) => l,
        Err(e) => {
            rep.inconclusive += 1;
            rep.notes.push(format!("case {}: {}", case_no, e));
            return;
        }
    };
    let h0 = l0.hash();
    rep.set_add("layouts", h0);
    // table for cross-process / cross-configuration comparison
    rep.table.push((case_no, plan.hash(), h0));
    if dump {
        return;
    }
    let check = |name: &str, variant: &Plan, changed: usize, rep: &mut Report| {
        rep.metric(&format!("variant_{}", name), 1);
        rep.evaluations += 1;
        // "fresh thread": a thread that has never built anything (no per-thread leftovers)
        let built = if name == "fresh_thread" {
            let v = variant.clone();
            std::thread::spawn(move || layout_of(&v)).join().unwrap_or_else(|_| Err("the building thread panicked".to_string()))
        } else {
            layout_of(variant)
        };
        match built {
            Ok(l) => {
                if l.hash() != h0 {
                    rep.violation(
                        &format!("layout_differs:{}", name),
                        &format!("transformation `{}` changed the plan: {} became {}", name, l0.brief(), l.brief()),
                        case_no,
                        J::obj().set("plan", plan.to_json()).set("variant", variant.to_json()).set("layout", l0.to_json()).set("variant_layout", l.to_json()),
                    );
                } else if changed > 0 {
                    rep.nontrivial(mix(plan.hash(), crate::rng::hash_str(name)));
                }
            }
            Err(e) => rep.violation(&format!("variant_failed:{}", name), &format!("transformation `{}` made the build fail: {}", name, e), case_no, J::obj().set("plan", plan.to_json()).set("variant", variant.to_json())),
        }
    };
    check("rebuild", &plan, 0, rep);
    if case_no % 4 == 0 {
        check("fresh_thread", &plan, 1, rep);
    }
    let (v, nf) = strip_failed(&plan);
    if nf > 0 {
        check("without_the_failed_attempts", &v, nf, rep);
    }
    let named = {
        let mut n = 0;
        plan.walk(&mut |it, _| match it {
            Item::Sys(s) if !s.name.is_empty() => n += 1,
            Item::Batch(b) if !b.name.is_empty() => n += 1,
            _ => {}
        });
        n
    };
    let v = rename(&plan, rng);
    check("rename", &v, named, rep);
    let (v, moved) = relabel(&plan, rng);
    check("relabel", &v, moved, rep);
    let (v, ch) = permute_lists(&plan, rng);
    check("permute_lists", &v, ch, rep);
    let (v, nn) = name_unnamed(&plan);
    check("name_the_unnamed", &v, nn, rep);
    let (v, un) = unname_unreferenced(&plan);
    check("unname_the_unreferenced", &v, un, rep);
    // all three at once
    let v = rename(&plan, rng);
    let (v, m2) = relabel(&v, rng);
    let (v, c2) = permute_lists(&v, rng);
    check("all", &v, named + m2 + c2, rep);
    if rep.samples.len() < rep.max_samples && plan.n_systems_total() < 16 && moved > 0 {
        rep.sample(
            J::obj()
                .set("case", case_no)
                .set("plan", plan.to_json())
                .set("layout", l0.to_json())
                .set("layout_hash", hex(h0))
                .set("variant_all", v.to_json()),
        );
    }
}

/// Same registration structure over (a) distinctly named resource types and (b) distinct resource
/// types that all carry the *same* type name (declared in sibling blocks): "which concrete types
/// stand for the resources" must not matter, whatever their names are.
/// Two builders with the same registration structure: `a` over distinctly named resource types,
/// `b` over distinct resource types that all carry the *same* type name (declared in sibling
/// blocks). Also returns the (equal) type names of the first two block-local types.
pub fn same_named_builders(pool: &crate::sys::Pool) -> (shred::DispatcherBuilder<'static, 'static>, shred::DispatcherBuilder<'static, 'static>, &'static str, &'static str) {
    use shred::{DispatcherBuilder, Read, System, Write};
    // registers one writer (and optionally one reader) of a block-local resource type
    macro_rules! block_local {
        ($b:expr, $reader:expr) => {{
            #[derive(Default)]
            struct Counter(u64);
            struct Wr;
            impl<'a> System<'a> for Wr {
                type SystemData = Write<'a, Counter>;
                fn run(&mut self, mut d: Self::SystemData) {
                    d.0 += 1;
                    // stay inside run for a few microseconds (a reader placed beside us would meet us)
                    for i in 0..2_000u32 {
                        std::hint::black_box(i);
                    }
                }
            }
            struct Rd;
            impl<'a> System<'a> for Rd {
                type SystemData = Read<'a, Counter>;
                fn run(&mut self, d: Self::SystemData) {
                    for i in 0..2_000u32 {
                        std::hint::black_box(i);
                    }
                    std::hint::black_box(d.0);
                }
            }
            $b.add(Wr, "", &[]);
            if $reader {
                $b.add(Rd, "", &[]);
            }
            std::any::type_name::<Counter>()
        }};
    }
    macro_rules! named {
        ($b:expr, $name:ident, $reader:expr) => {{
            #[derive(Default)]
            struct $name(u64);
            struct Wr;
            impl<'a> System<'a> for Wr {
                type SystemData = Write<'a, $name>;
                fn run(&mut self, mut d: Self::SystemData) {
                    d.0 += 1;
                }
            }
            struct Rd;
            impl<'a> System<'a> for Rd {
                type SystemData = Read<'a, $name>;
                fn run(&mut self, d: Self::SystemData) {
                    std::hint::black_box(d.0);
                }
            }
            $b.add(Wr, "", &[]);
            if $reader {
                $b.add(Rd, "", &[]);
            }
        }};
    }
    let mut a = DispatcherBuilder::new();
    #[cfg(feature = "parallel")]
    a.add_pool(pool.clone());
    named!(a, Res0, false);
    named!(a, Res1, false);
    named!(a, Res2, true);
    named!(a, Res3, false);
    named!(a, Res4, true);
    let mut b = DispatcherBuilder::new();
    #[cfg(feature = "parallel")]
    b.add_pool(pool.clone());
    let n0 = block_local!(b, false);
    let n1 = block_local!(b, false);
    let _ = block_local!(b, true);
    let _ = block_local!(b, false);
    let _ = block_local!(b, true);
    let _ = pool;
    (a, b, n0, n1)
}

/// Same registration structure over (a) distinctly named resource types and (b) distinct resource
/// types that all carry the *same* type name (declared in sibling blocks): "which concrete types
/// stand for the resources" must not matter, whatever their names are.
fn same_named_types(rep: &mut Report, case_no: u64) {
    rep.evaluations += 1;
    let pool = crate::sys::make_pool(1);
    let (a, b, n0, n1) = same_named_builders(&pool);
    let (sa, sb) = (a.build().verif_shape(), b.build().verif_shape());
    rep.metric("same_named_type_builds", 1);
    if n0 == n1 {
        rep.metric("type_names_really_coincide", 1);
    }
    if sa != sb {
        rep.violation(
            "layout_differs:same_named_types",
            &format!("the same registration structure gives shape {:?} over distinctly named resource types but {:?} over distinct types that share the name {:?}", sa.0, sb.0, n0),
            case_no,
            J::Null,
        );
    } else {
        rep.nontrivial(0x5a3e_0001);
    }
}

pub fn run(args: &Args) -> i32 {
    let mut rep = Report::new(args);
    let dump = args.has("--dump");
    let n = args.count(4_800, 80_000);
    let range: Vec<u64> = match args.case {
        Some(c) => vec![c],
        None => (0..n).collect(),
    };
    if !dump {
        guard_case(&mut rep, 0, |rep| same_named_types(rep, 0));
    }
    for c in range {
        if rep.time_up() {
            break;
        }
        let mut rng = Rng::new(args.case_seed(c));
        guard_case(&mut rep, c, |rep| case(&mut rng, rep, c, dump));
    }
    rep.finish();
    0
}
