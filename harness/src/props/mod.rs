use crate::report::Args;

pub mod c04;
pub mod c05;
pub mod c08;
#[macro_use]
pub mod c09;
#[cfg(feature = "parallel")]
pub mod c11;
pub mod c13;
pub mod c14;
#[cfg(feature = "parallel")]
pub mod c15;
#[cfg(feature = "parallel")]
pub mod c16;
pub mod c17;
pub mod c18;
pub mod c19;
pub mod c20;
pub mod hb;
pub mod sched;

/// Dispatches a subcommand. Exit code 0 = shard ran to completion (verdicts are in the report).
pub fn run(args: &Args) -> i32 {
    match args.prop.as_str() {
        "c01" => sched::run(args, "c01", "C01", 19_200, 240_000, 6),
        "c02" => sched::run(args, "c02", "C02", 38_400, 400_000, 4),
        "c03" => sched::run(args, "c03", "C03", 38_400, 400_000, 4),
        "c04" => c04::run(args),
        "c08" => c08::run(args),
        "c09" => c09::run(args),
        #[cfg(feature = "parallel")]
        "c11" => c11::run(args),
        "c13" => c13::run(args),
        "c14" => c14::run(args),
        #[cfg(feature = "parallel")]
        "c15" => c15::run(args),
        #[cfg(feature = "parallel")]
        "c16" => c16::run(args),
        "c17" => c17::run(args),
        "c18" => c18::run(args),
        "c19" => c19::run(args),
        "c20" => c20::run(args),
        "c05" => c05::run(args),
        "hb" => hb::run(args),
        "c07" => sched::run(args, "c07", "C07", 25_600, 300_000, 5),
        "c10" => sched::run(args, "c10", "C10", 120_000, 1_500_000, 0),
        "c12" => sched::run(args, "c12", "C12", 25_600, 300_000, 4),
        other => {
            eprintln!("unknown subcommand {}", other);
            64
        }
    }
}
