//! Happens-before probe (C02, C03, C12, C15; decided by ThreadSanitizer / Miri, not by this code).
//!
//! The event-log oracle judges *temporal* order on a sequentially consistent clock - and the log
//! itself (atomic read-modify-write operations in every system) synchronises the threads it
//! observes. A dispatcher that orders two systems in time but without a happens-before edge (a
//! hand-rolled latch with relaxed atomics, say) would pass it on this hardware. Here the systems
//! run in `Mode::Hb`: they touch no atomic of the harness, read the plain cells of everything that
//! must have finished before them (dependencies, systems in front of an effective barrier,
//! every ordinary system for a thread-local one, their own previous run) and write their own cell.
//! The only synchronisation between two systems is then the dispatcher's. A missing edge is a data
//! race on a cell, reported by the race detector of the sanitizer build.

use std::sync::atomic::Ordering::SeqCst;

use crate::ctx::*;
use crate::exec::*;
use crate::gen::*;
use crate::plan::*;
use crate::report::*;
use crate::rng::{mix, Rng};

/// For every uid the uids that must have finished before it starts (within its builder level).
pub fn hb_relations(plan: &Plan, n_uids: usize) -> (Vec<Vec<u32>>, usize) {
    fn level(p: &Plan, out: &mut Vec<Vec<u32>>, edges: &mut usize) {
        let rel = Relations::of(p);
        let n = rel.units.len();
        for i in 0..n {
            let mut v: Vec<u32> = rel.deps[i].iter().map(|d| rel.units[*d].uid).collect();
            // systems in front of an effective barrier: the last three of the previous segments
            // and the first two of all
            let earlier: Vec<usize> = (0..i).filter(|j| rel.segment[*j] < rel.segment[i]).collect();
            for j in earlier.iter().rev().take(3).chain(earlier.iter().take(2)) {
                v.push(rel.units[*j].uid);
            }
            v.sort();
            v.dedup();
            *edges += v.len();
            out[rel.units[i].uid as usize] = v;
        }
        // thread-local systems: after every ordinary unit of the level (capped) and after the
        // thread-local systems registered before them
        let tls = p.tls();
        for (k, t) in tls.iter().enumerate() {
            let mut v: Vec<u32> = rel.units.iter().take(24).map(|u| u.uid).collect();
            v.extend(tls[..k].iter().map(|x| x.uid));
            *edges += v.len();
            out[t.uid as usize] = v;
        }
        for b in p.batches() {
            level(&b.inner, out, edges);
        }
    }
    let mut out = vec![Vec::new(); n_uids];
    let mut edges = 0;
    level(plan, &mut out, &mut edges);
    (out, edges)
}

const PROFILES: [Profile; 8] = [Profile::DepChains, Profile::DepFans, Profile::BarrierHeavy, Profile::BarrierHeavy, Profile::Mixed, Profile::Batchy, Profile::Tiny, Profile::Dense];
const MODES: [DMode; 5] = [DMode::Dispatch, DMode::Dispatch, DMode::Par, DMode::RunNow, DMode::SeqTl];

fn case(rng: &mut Rng, pools: &mut Pools, rep: &mut Report, case_no: u64, tiny: bool, focus: &str) {
    let profile = *rng.pick(&PROFILES);
    let mut c = cfg_for(profile, rng);
    c.n = if tiny { (2, 5) } else { (c.n.0.min(3), c.n.1.min(16)) };
    c.tl = (0, 3);
    c.p_dep = c.p_dep.max(30);
    c.p_barrier = c.p_barrier.max(10);
    c.p_noaccess = c.p_noaccess.max(40);
    // the property whose leg this is shifts the emphasis (and thereby the plans)
    match focus {
        "deps" => {
            c.p_dep = 60;
            c.max_deps = 3;
        }
        "barriers" => {
            c.p_barrier = 35;
            c.edge_barriers = true;
        }
        "tl" => c.tl = (1, 5),
        _ => {}
    }
    if tiny {
        c.max_batches = 1;
        c.depth_left = c.depth_left.min(1);
    }
    let plan = gen_with(rng, &c);
    let pool_size = if tiny { rng.range(2, 3) } else { *rng.pick(&[2usize, 3, 4, 8]) };
    let pool = pools.get(pool_size);
    let n_uids = plan.n_uids();
    rep.evaluations += 1;
    let (preds, edges) = hb_relations(&plan, n_uids.max(1));
    rep.metric("hb_edges_probed_per_dispatch", edges as i64);
    #[cfg(feature = "parallel")]
    if case_no % 4 == 3 || (focus == "async" && case_no % 4 != 0) {
        // the async dispatcher: after wait() returned, everything that ran happened before
        let ctx = Ctx::new(n_uids.max(1), 16);
        let b = match std::panic::catch_unwind(std::panic::AssertUnwindSafe(|| crate::sys::instantiate(&plan, &ctx, Some(&pool)))) {
            Ok(b) => b,
            Err(_) => {
                rep.inconclusive += 1;
                return;
            }
        };
        ctx.hb_set(preds);
        let mut ad = b.build_async(crate::res::full_world_with(plan.slots_used().into_iter()));
        ctx.set_mode(Mode::Hb);
        let mut acc = 0u64;
        for r in 0..if tiny { 2 } else { 4 } {
            ad.dispatch();
            if mix(case_no, r) % 3 == 0 {
                ad.dispatch();
                rep.metric("dispatches", 1);
            }
            match mix(case_no, r + 17) % 4 {
                0 => {
                    let _ = ad.running();
                }
                1 => ad.wait_without_tl(),
                _ => {}
            }
            ad.wait();
            acc = acc.wrapping_add(ctx.hb_read_all());
            rep.metric("dispatches", 1);
        }
        ctx.set_mode(Mode::Build);
        std::hint::black_box(acc);
        rep.metric("async_histories", 1);
        rep.nontrivial(mix(plan.hash(), 0xa5));
        return;
    }
    let mut inst = match build(&plan, Some(&pool), pool_size, 16) {
        Ok(i) => i,
        Err(_) => {
            rep.inconclusive += 1;
            return;
        }
    };
    inst.ctx.hb_set(preds);
    let mut acc = 0u64;
    for _ in 0..if tiny { 2 } else { 4 } {
        let m = *rng.pick(&MODES);
        let ctx = inst.ctx.clone();
        ctx.set_mode(Mode::Hb);
        let world = &inst.world;
        let d = inst.disp.as_mut().expect("dispatcher");
        let r = std::panic::catch_unwind(std::panic::AssertUnwindSafe(|| call(d, world, m)));
        ctx.set_mode(Mode::Build);
        if r.is_err() {
            rep.metric("other_property_findings", 1);
            return;
        }
        acc = acc.wrapping_add(ctx.hb_read_all());
        rep.metric("dispatches", 1);
    }
    std::hint::black_box(acc);
    if edges > 0 {
        rep.nontrivial(mix(plan.hash(), pool_size as u64));
    }
}

/// The probe must be able to fire: two threads ordered only by a relaxed flag. Under the race
/// detector this run is *expected* to be reported (used once to validate the leg, see DESIGN).
fn selftest_broken() {
    use std::sync::atomic::{AtomicBool, Ordering::Relaxed};
    let ctx = Ctx::new(4, 4);
    ctx.hb_set(vec![vec![], vec![], vec![1], vec![]]);
    let flag = AtomicBool::new(false);
    // (both threads stay alive until both are done: a detector need not remember exited threads)
    let done = std::sync::Barrier::new(2);
    eprintln!("hb self-test: two threads ordered by a relaxed flag only (a race report is the expected outcome under a race detector)");
    std::thread::scope(|s| {
        s.spawn(|| {
            let v = ctx.hb_enter(1);
            ctx.hb_leave(1, v);
            flag.store(true, Relaxed);
            done.wait();
        });
        s.spawn(|| {
            while !flag.load(Relaxed) {
                std::hint::spin_loop();
            }
            let v = ctx.hb_enter(2);
            ctx.hb_leave(2, v);
            done.wait();
        });
    });
}

pub fn run(args: &Args) -> i32 {
    let mut rep = Report::new(args);
    let mut pools = Pools::new();
    if args.has("--hb-selftest") {
        selftest_broken();
        rep.finish();
        return 0;
    }
    let tiny = args.has("--tiny");
    let focus = ["deps", "barriers", "tl", "async"].into_iter().find(|f| args.has(&format!("--{}", f))).unwrap_or("");
    let n = args.count(4_000, 40_000);
    let range: Vec<u64> = match args.case {
        Some(c) => vec![c],
        None => (0..n).collect(),
    };
    for c in range {
        if rep.time_up() {
            break;
        }
        let mut rng = Rng::new(args.case_seed(c));
        guard_case(&mut rep, c, |rep| case(&mut rng, &mut pools, rep, c, tiny, focus));
    }
    let _ = SeqCst;
    rep.finish();
    0
}
