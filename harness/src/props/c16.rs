//! C16 – Par/Seq trees assembled at run time from the real `Par` / `Seq` nodes.

use std::panic::{catch_unwind, AssertUnwindSafe};
use std::sync::atomic::Ordering::SeqCst;
use std::sync::Arc;
use std::time::Duration;

use shred::{Par, ParSeq, ResourceId, RunWithPool, Seq, World};

use crate::ctx::*;
use crate::json::J;
use crate::oracle::collect_windows;
use crate::plan::*;
use crate::report::*;
use crate::res::*;
use crate::rng::{mix, Rng};
use crate::sys::{make_pool, HSys, HSysD, Pool};

/// Boxing adapter: lets a run-time tree use the concrete `Par<..>` / `Seq<..>` types.
pub struct Boxed(pub Box<dyn for<'a> RunWithPool<'a> + Send>);

impl<'a> RunWithPool<'a> for Boxed {
    fn setup(&mut self, world: &mut World) {
        self.0.setup(world)
    }
    fn run(&mut self, world: &'a World, pool: &rayon::ThreadPool) {
        self.0.run(world, pool)
    }
    fn reads(&self, reads: &mut Vec<ResourceId>) {
        self.0.reads(reads)
    }
    fn writes(&self, writes: &mut Vec<ResourceId>) {
        self.0.writes(writes)
    }
}

#[derive(Clone, Debug)]
pub enum TNode {
    Leaf(SysSpec),
    Par(Vec<TNode>),
    Seq(Vec<TNode>),
}

impl TNode {
    fn leaves<'a>(&'a self, out: &mut Vec<&'a SysSpec>) {
        match self {
            TNode::Leaf(s) => out.push(s),
            TNode::Par(c) | TNode::Seq(c) => c.iter().for_each(|x| x.leaves(out)),
        }
    }
    fn access(&self) -> Access {
        let mut v = Vec::new();
        self.leaves(&mut v);
        let mut a = Access::default();
        for s in v {
            a.union(&Access::of(&s.reads, &s.writes));
        }
        a
    }
    fn depth(&self) -> usize {
        match self {
            TNode::Leaf(_) => 0,
            TNode::Par(c) | TNode::Seq(c) => 1 + c.iter().map(|x| x.depth()).max().unwrap_or(0),
        }
    }
    fn kinds(&self, par: &mut usize, seq: &mut usize) {
        match self {
            TNode::Leaf(_) => {}
            TNode::Par(c) => {
                *par += 1;
                c.iter().for_each(|x| x.kinds(par, seq));
            }
            TNode::Seq(c) => {
                *seq += 1;
                c.iter().for_each(|x| x.kinds(par, seq));
            }
        }
    }
    fn shape_hash(&self) -> u64 {
        match self {
            TNode::Leaf(_) => 3,
            TNode::Par(c) => c.iter().fold(5, |h, x| mix(h, x.shape_hash())),
            TNode::Seq(c) => c.iter().fold(7, |h, x| mix(h, x.shape_hash())),
        }
    }
    fn to_json(&self) -> J {
        match self {
            TNode::Leaf(s) => J::Str(format!("u{} r{:?} w{:?}", s.uid, s.reads.iter().map(|x| x.label()).collect::<Vec<_>>(), s.writes.iter().map(|x| x.label()).collect::<Vec<_>>())),
            TNode::Par(c) => J::obj().set("par", J::Arr(c.iter().map(|x| x.to_json()).collect())),
            TNode::Seq(c) => J::obj().set("seq", J::Arr(c.iter().map(|x| x.to_json()).collect())),
        }
    }
    /// first j >= 1 of some par node (in construction order) whose child conflicts with the
    /// children already there; None if every `Par::with` is conflict-free
    fn first_conflicting_with(&self) -> bool {
        match self {
            TNode::Leaf(_) => false,
            TNode::Seq(c) => c.iter().any(|x| x.first_conflicting_with()),
            TNode::Par(c) => {
                if c.iter().any(|x| x.first_conflicting_with()) {
                    return true;
                }
                let mut acc = Access::default();
                for (j, ch) in c.iter().enumerate() {
                    let a = ch.access();
                    if j > 0 && a.conflicts(&acc) {
                        return true;
                    }
                    acc.union(&a);
                }
                false
            }
        }
    }
}

/// Real nodes: `Par::new(c0).with(c1)` re-boxed, `.with(c2)` ...
fn build(node: &TNode, ctx: &Arc<Ctx>) -> Boxed {
    match node {
        // two leaf flavours: accessor type without / with a default (`try_new()`)
        TNode::Leaf(s) => {
            if s.uid % 2 == 0 {
                Boxed(Box::new(HSys::new(s, ctx)))
            } else {
                Boxed(Box::new(HSysD::new(s, ctx)))
            }
        }
        TNode::Par(c) => {
            let mut acc = build(&c[0], ctx);
            if c.len() == 1 {
                return Boxed(Box::new(Par::new(acc)));
            }
            for ch in &c[1..] {
                acc = Boxed(Box::new(Par::new(acc).with(build(ch, ctx))));
            }
            acc
        }
        TNode::Seq(c) => {
            let mut acc = build(&c[0], ctx);
            if c.len() == 1 {
                return Boxed(Box::new(Seq::new(acc)));
            }
            for ch in &c[1..] {
                acc = Boxed(Box::new(Seq::new(acc).with(build(ch, ctx))));
            }
            acc
        }
    }
}

struct TG<'r> {
    rng: &'r mut Rng,
    uid: u32,
    ro: Vec<Slot>,
}

impl<'r> TG<'r> {
    fn node(&mut self, depth_left: usize, writable: Vec<Slot>, fan: usize) -> TNode {
        let leaf = depth_left == 0 || self.rng.chance(1, 4);
        if leaf {
            let uid = self.uid;
            self.uid += 1;
            let mut w = writable.clone();
            self.rng.shuffle(&mut w);
            let wmax = if writable.len() > 40 { self.rng.range(0, 12) } else { self.rng.range(0, 2) };
            w.truncate(wmax.min(w.len()));
            let mut rpool: Vec<Slot> = writable.iter().filter(|s| !w.contains(s)).cloned().chain(self.ro.iter().cloned()).collect();
            self.rng.shuffle(&mut rpool);
            rpool.truncate(self.rng.range(0, 3).min(rpool.len()));
            return TNode::Leaf(SysSpec { uid, name: String::new(), deps: vec![], reads: rpool, writes: w, time: 3, kind: Kind::Dyn });
        }
        let k = self.rng.range(1, fan);
        if self.rng.chance(1, 2) {
            // par: children get disjoint parts of the writable pool
            let mut parts: Vec<Vec<Slot>> = vec![Vec::new(); k];
            for s in writable {
                let i = self.rng.below(k);
                parts[i].push(s);
            }
            TNode::Par(parts.into_iter().map(|p| self.node(depth_left - 1, p, fan)).collect())
        } else {
            TNode::Seq((0..k).map(|_| self.node(depth_left - 1, writable.clone(), fan)).collect())
        }
    }
}

fn gen_tree(rng: &mut Rng) -> TNode {
    // every 8th tree ranges over all 128 resources (a par node may then mention > 64 distinct ones)
    let wide = rng.chance(1, 8) && !crate::props::sched::tiny();
    let mut all: Vec<Slot> = if wide { Slot::all_ext().collect() } else { Slot::all().collect() };
    rng.shuffle(&mut all);
    let ro = all.split_off(all.len() - 6);
    let tiny = crate::props::sched::tiny();
    let depth = if tiny { rng.range(1, 2) } else { rng.range(1, 5) };
    let fan = if tiny { 2 } else { rng.range(2, 6) };
    let mut g = TG { rng, uid: 1, ro };
    // the root is an inner node
    loop {
        let t = g.node(depth, all.clone(), fan);
        if !matches!(t, TNode::Leaf(_)) {
            return t;
        }
    }
}

/// Makes some par node conflicting by giving one leaf a write to a slot a par-sibling uses.
fn poison(t: &mut TNode, rng: &mut Rng) -> bool {
    match t {
        TNode::Leaf(_) => false,
        TNode::Seq(c) => {
            let i = rng.below(c.len());
            poison(&mut c[i], rng)
        }
        TNode::Par(c) => {
            if c.len() >= 2 && rng.chance(2, 3) {
                let i = rng.below(c.len());
                let j = (i + 1 + rng.below(c.len() - 1)) % c.len();
                let a = c[j].access();
                let victim_slot = a.writes.iter().chain(a.reads.iter()).next().cloned();
                if let Some(sl) = victim_slot {
                    // first leaf of child i
                    fn first_leaf(n: &mut TNode) -> &mut SysSpec {
                        match n {
                            TNode::Leaf(s) => s,
                            TNode::Par(c) | TNode::Seq(c) => first_leaf(&mut c[0]),
                        }
                    }
                    let l = first_leaf(&mut c[i]);
                    if a.writes.contains(&sl) && rng.chance(1, 2) {
                        if !l.reads.contains(&sl) && !l.writes.contains(&sl) {
                            l.reads.push(sl);
                        }
                    } else if !l.writes.contains(&sl) {
                        l.reads.retain(|x| *x != sl);
                        l.writes.push(sl);
                    }
                    return true;
                }
                false
            } else {
                let i = rng.below(c.len());
                poison(&mut c[i], rng)
            }
        }
    }
}

fn seq_pairs<'a>(t: &'a TNode, out: &mut Vec<(Vec<u32>, Vec<u32>)>) {
    match t {
        TNode::Leaf(_) => {}
        TNode::Par(c) => c.iter().for_each(|x| seq_pairs(x, out)),
        TNode::Seq(c) => {
            for i in 0..c.len() {
                seq_pairs(&c[i], out);
                if i + 1 < c.len() {
                    let (mut a, mut b) = (Vec::new(), Vec::new());
                    c[i].leaves(&mut a);
                    c[i + 1].leaves(&mut b);
                    out.push((a.iter().map(|s| s.uid).collect(), b.iter().map(|s| s.uid).collect()));
                }
            }
        }
    }
}

fn case(rng: &mut Rng, pools: &mut std::collections::HashMap<usize, Pool>, rep: &mut Report, case_no: u64) {
    let mut tree = gen_tree(rng);
    let poisoned = rng.chance(1, 3) && poison(&mut tree, rng);
    let mut leaves = Vec::new();
    tree.leaves(&mut leaves);
    let leaves: Vec<SysSpec> = leaves.into_iter().cloned().collect();
    let n_uids = leaves.iter().map(|l| l.uid).max().unwrap_or(0) as usize + 1;
    rep.evaluations += 1;
    let (mut npar, mut nseq) = (0, 0);
    tree.kinds(&mut npar, &mut nseq);
    rep.metric_max("depth", tree.depth() as i64);
    rep.metric_max("leaves", leaves.len() as i64);
    let ctx = Ctx::new(n_uids, leaves.len() * 6 + 64);
    let expect_panic = tree.first_conflicting_with();
    let built = catch_unwind(AssertUnwindSafe(|| build(&tree, &ctx)));
    let detail = |tree: &TNode| J::obj().set("tree", tree.to_json());
    let nontrivial = tree.depth() >= 2 && npar > 0 && nseq > 0;
    let root = match (built, expect_panic) {
        (Err(p), true) => {
            let msg = payload_str(&*p);
            rep.metric("conflicting_with_rejected", 1);
            let _ = msg; // any panic is a rejection: the wording is not part of the property
            if nontrivial {
                rep.nontrivial(mix(tree.shape_hash(), 0xbad));
            }
            return;
        }
        (Err(p), false) => {
            rep.violation("with_rejected_compatible_child", &format!("Par::with panicked although the new child conflicts with nothing already in the node: {}", payload_str(&*p)), case_no, detail(&tree));
            return;
        }
        (Ok(_), true) => {
            rep.violation("with_accepted_conflicting_child", "Par::with accepted a child whose access conflicts with the children already in the par node (debug assertions are on)", case_no, detail(&tree));
            return;
        }
        (Ok(r), false) => r,
    };
    let _ = poisoned;
    // ---- reads()/writes() of the root ----
    let (mut r, mut w) = (Vec::new(), Vec::new());
    root.reads(&mut r);
    root.writes(&mut w);
    let mut want_r: Vec<ResourceId> = leaves.iter().flat_map(|l| l.reads.iter().map(|s| s.rid())).collect();
    let mut want_w: Vec<ResourceId> = leaves.iter().flat_map(|l| l.writes.iter().map(|s| s.rid())).collect();
    r.sort();
    w.sort();
    want_r.sort();
    want_w.sort();
    if r != want_r || w != want_w {
        rep.violation("root_access", &format!("the root reports {} reads / {} writes, its leaves declare {} / {} (as multisets they differ)", r.len(), w.len(), want_r.len(), want_w.len()), case_no, detail(&tree));
        return;
    }
    // ---- setup reaches every leaf; dispatch from outside and from inside the pool ----
    let pool_size = if crate::props::sched::tiny() { rng.range(1, 3) } else { *rng.pick(&[1usize, 2, 3, 4, 8, 16]) };
    let pool = pools.entry(pool_size).or_insert_with(|| make_pool(pool_size)).clone();
    let mut world = World::empty();
    let mut ps = ParSeq::new(root, pool.clone());
    // setup may be called again (another world, or after resources were removed): every call
    // reaches every leaf
    let rounds = rng.range(1, 3) as u32;
    for round in 1..=rounds {
        if round == 2 {
            world = World::empty();
        }
        if round == 3 {
            for l in &leaves {
                for sl in l.reads.iter().chain(l.writes.iter()) {
                    if rng.chance(1, 3) {
                        remove_slot(&mut world, *sl);
                    }
                }
            }
        }
        if round % 2 == 1 {
            ps.setup(&mut world);
        } else {
            shred::RunNow::setup(&mut ps, &mut world);
        }
        for l in &leaves {
            let n = ctx.setups[l.uid as usize].load(SeqCst);
            if n != round {
                rep.violation("setup_missed_leaf", &format!("after {} call(s) of ParSeq::setup leaf u{} has been set up {} times", round, l.uid, n), case_no, detail(&tree));
                return;
            }
            for sl in l.reads.iter().chain(l.writes.iter()) {
                if probe(&world, *sl) == Probe::Absent {
                    rep.violation("setup_left_resource_missing", &format!("after {} call(s) of ParSeq::setup the resource {} of leaf u{} does not exist", round, sl.label(), l.uid), case_no, detail(&tree));
                    return;
                }
            }
        }
    }
    rep.metric("setup_rounds", rounds as i64);
    let mut pairs = Vec::new();
    seq_pairs(&tree, &mut pairs);
    rep.metric("seq_adjacent_pairs", pairs.len() as i64);
    let ndisp = rng.range(2, 3);
    for di in 0..ndisp {
        let inside = rng.chance(1, 2);
        ctx.log.reset();
        ctx.arm(Arc::new(Jitter { seed: rng.next(), level: 0 }));
        ctx.set_mode(Mode::Run);
        let before = ctx.run_counts();
        let res = catch_unwind(AssertUnwindSafe(|| {
            if inside {
                pool.install(|| ps.dispatch(&world))
            } else if di % 2 == 0 {
                ps.dispatch(&world)
            } else {
                shred::RunNow::run_now(&mut ps, &world)
            }
        }));
        ctx.set_mode(Mode::Build);
        ctx.disarm();
        rep.metric(if inside { "dispatch_from_inside_pool" } else { "dispatch_from_outside_pool" }, 1);
        if let Err(p) = res {
            let msg = payload_str(&*p);
            let kind = if classify(&msg) == PanicKind::BorrowConflict { "borrow_conflict_panic" } else { "dispatch_panicked" };
            rep.violation(kind, &format!("dispatching a conflict-free tree panicked: {}", msg), case_no, detail(&tree));
            return;
        }
        let now = ctx.run_counts();
        for l in &leaves {
            let d = now[l.uid as usize] - before[l.uid as usize];
            if d != 1 {
                rep.violation(if d == 0 { "leaf_skipped" } else { "leaf_repeated" }, &format!("leaf u{} ran {} times in one dispatch of the tree", l.uid, d), case_no, detail(&tree));
                return;
            }
        }
        let evs = ctx.log.since(0);
        let mut f = Vec::new();
        let w = collect_windows(&evs, &mut f);
        let win = |u: u32| w.by_uid.get(&u).and_then(|v| v.last()).cloned();
        for (a, b) in &pairs {
            let a_end = a.iter().filter_map(|u| win(*u)).map(|x| x.rel).max().unwrap_or(0);
            let b_start = b.iter().filter_map(|u| win(*u)).map(|x| x.enter).min().unwrap_or(usize::MAX);
            if !(a_end < b_start) {
                rep.violation(
                    "seq_order",
                    &format!("in a seq node a leaf of the later child (leaves {:?}) entered at ts {} before every leaf of the earlier child (leaves {:?}) had ended (ts {})", b, b_start, a, a_end),
                    case_no,
                    detail(&tree).set("events", J::Arr(evs.iter().take(60).map(|e| J::Str(e.show())).collect())),
                );
                return;
            }
        }
        // conflicting leaves never overlap (they are always ordered by some seq node in such a tree)
        for i in 0..leaves.len() {
            for j in 0..i {
                if Access::of(&leaves[i].reads, &leaves[i].writes).conflicts(&Access::of(&leaves[j].reads, &leaves[j].writes)) {
                    if let (Some(x), Some(y)) = (win(leaves[i].uid), win(leaves[j].uid)) {
                        if x.overlaps(&y) {
                            rep.violation("conflicting_leaves_overlap", &format!("conflicting leaves u{} and u{} overlapped", leaves[i].uid, leaves[j].uid), case_no, detail(&tree));
                            return;
                        }
                    }
                }
            }
        }
        for v in ctx.take_violations() {
            if v.starts_with("torn") {
                rep.violation("torn_value", &v, case_no, detail(&tree));
                return;
            }
        }
        rep.metric("tree_dispatches", 1);
    }
    if nontrivial {
        rep.nontrivial(tree.shape_hash());
    }
    if rep.samples.len() < rep.max_samples && nontrivial && leaves.len() < 10 {
        rep.sample(J::obj().set("case", case_no).set("tree", tree.to_json()).set("pool", pool_size).set("dispatches", ndisp).set("seq_adjacent_pairs", pairs.len()));
    }
}

/// "children of a par node may overlap": rendezvous of k leaves under one par root, with control.
fn overlap_case(rng: &mut Rng, rep: &mut Report, case_no: u64) {
    let k = rng.range(2, 8);
    let pool_size = if rng.chance(1, 2) { k } else { 16 };
    let pool = make_pool(pool_size);
    let leaves: Vec<SysSpec> = (0..k)
        .map(|i| SysSpec { uid: i as u32 + 1, name: String::new(), deps: vec![], reads: vec![], writes: vec![Slot::new(i / NDYN, i % NDYN)], time: 3, kind: Kind::Dyn })
        .collect();
    // mix of flat par and par-of-seq-of-one
    let tree = TNode::Par(leaves.iter().map(|l| if rng.chance(1, 3) { TNode::Seq(vec![TNode::Leaf(l.clone())]) } else { TNode::Leaf(l.clone()) }).collect());
    let ctx = Ctx::new(k + 1, k * 6 + 64);
    let root = build(&tree, &ctx);
    let world = full_world();
    let mut ps = ParSeq::new(root, pool.clone());
    rep.evaluations += 1;
    let wait = Duration::from_secs(10);
    let o = Arc::new(Overlap::new(vec![leaves.iter().map(|l| l.uid).collect()], wait));
    // 0 = from outside any pool, 1 = from inside the own pool, 2 = from a worker of a *different*,
    // narrow pool (for the tree's pool that is "outside": its children may still overlap)
    let from = rng.below(3);
    let foreign = make_pool(1);
    let inside = from == 1;
    for _ in 0..20 {
        ctx.log.reset();
        ctx.arm(o.clone());
        ctx.set_mode(Mode::Run);
        match from {
            1 => pool.install(|| ps.dispatch(&world)),
            2 => foreign.install(|| ps.dispatch(&world)),
            _ => ps.dispatch(&world),
        }
        ctx.set_mode(Mode::Build);
        ctx.disarm();
        if o.gave_up.load(SeqCst) > 0 {
            break;
        }
    }
    rep.metric("par_rendezvous_completed", (o.completed.load(SeqCst) / k) as i64);
    if o.gave_up.load(SeqCst) > 0 {
        // control: k plain closures on the same pool
        let arrived = std::sync::atomic::AtomicUsize::new(0);
        let okc = std::sync::atomic::AtomicUsize::new(0);
        pool.scope(|s| {
            for _ in 0..k {
                s.spawn(|_| {
                    arrived.fetch_add(1, SeqCst);
                    if wait_until(std::time::Instant::now() + wait, || arrived.load(SeqCst) >= k) {
                        okc.fetch_add(1, SeqCst);
                    }
                });
            }
        });
        if okc.load(SeqCst) == k {
            rep.violation(
                "par_children_serialised",
                &format!("{} leaves under one par node could not all be inside run at once on a pool of {} threads (dispatch called {}), a plain rayon rendezvous on the same pool succeeds", k, pool_size, ["from outside any pool", "from inside the pool", "from a worker of a different 1-thread pool"][from]),
                case_no,
                J::obj().set("tree", tree.to_json()),
            );
        } else {
            rep.inconclusive += 1;
        }
    } else {
        rep.nontrivial(mix(0x0e11, mix(k as u64, pool_size as u64 + from as u64 * 100)));
        let _ = inside;
    }
}

pub fn run(args: &Args) -> i32 {
    let mut rep = Report::new(args);
    let mut pools = std::collections::HashMap::new();
    if args.has("--tiny") {
        crate::props::sched::TINY.store(true, SeqCst);
    }
    let n = args.count(6_400, 120_000);
    let range: Vec<u64> = match args.case {
        Some(c) => vec![c],
        None => (0..n).collect(),
    };
    for c in range {
        if rep.time_up() {
            break;
        }
        let mut rng = Rng::new(args.case_seed(c));
        if c % 50 == 49 && !crate::props::sched::tiny() {
            guard_case(&mut rep, c, |rep| overlap_case(&mut rng, rep, c));
        } else {
            guard_case(&mut rep, c, |rep| case(&mut rng, &mut pools, rep, c));
        }
    }
    rep.finish();
    0
}
