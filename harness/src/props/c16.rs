//! C16 – Par/Seq trees assembled at run time from the real `Par` / `Seq` nodes.

use std::panic::{catch_unwind, AssertUnwindSafe};
use std::sync::atomic::Ordering::SeqCst;
use std::sync::Arc;
use std::time::Duration;

use shred::{Accessor, AccessorCow, DynamicSystemData, Par, ParSeq, Read, ResourceId, RunWithPool, Seq, System, SystemData, World, Write};

use crate::ctx::*;
use crate::json::J;
use crate::oracle::collect_windows;
use crate::plan::*;
use crate::report::*;
use crate::res::*;
use crate::rng::{mix, Rng};
use crate::sys::{make_pool, HSys, HSysD, Pool};

/// Boxing adapter: lets a run-time tree use the concrete `Par<..>` / `Seq<..>` types.
pub struct Boxed(pub Box<dyn for<'a> RunWithPool<'a> + Send>);

impl<'a> RunWithPool<'a> for Boxed {
    fn setup(&mut self, world: &mut World) {
        self.0.setup(world)
    }
    fn run(&mut self, world: &'a World, pool: &rayon::ThreadPool) {
        self.0.run(world, pool)
    }
    fn reads(&self, reads: &mut Vec<ResourceId>) {
        self.0.reads(reads)
    }
    fn writes(&self, writes: &mut Vec<ResourceId>) {
        self.0.writes(writes)
    }
}

#[derive(Clone, Debug)]
pub enum TNode {
    Leaf(SysSpec),
    Par(Vec<TNode>),
    Seq(Vec<TNode>),
}

impl TNode {
    fn leaves<'a>(&'a self, out: &mut Vec<&'a SysSpec>) {
        match self {
            TNode::Leaf(s) => out.push(s),
            TNode::Par(c) | TNode::Seq(c) => c.iter().for_each(|x| x.leaves(out)),
        }
    }
    fn access(&self) -> Access {
        let mut v = Vec::new();
        self.leaves(&mut v);
        let mut a = Access::default();
        for s in v {
            a.union(&Access::of(&s.reads, &s.writes));
        }
        a
    }
    fn depth(&self) -> usize {
        match self {
            TNode::Leaf(_) => 0,
            TNode::Par(c) | TNode::Seq(c) => 1 + c.iter().map(|x| x.depth()).max().unwrap_or(0),
        }
    }
    fn kinds(&self, par: &mut usize, seq: &mut usize) {
        match self {
            TNode::Leaf(_) => {}
            TNode::Par(c) => {
                *par += 1;
                c.iter().for_each(|x| x.kinds(par, seq));
            }
            TNode::Seq(c) => {
                *seq += 1;
                c.iter().for_each(|x| x.kinds(par, seq));
            }
        }
    }
    fn shape_hash(&self) -> u64 {
        match self {
            TNode::Leaf(_) => 3,
            TNode::Par(c) => c.iter().fold(5, |h, x| mix(h, x.shape_hash())),
            TNode::Seq(c) => c.iter().fold(7, |h, x| mix(h, x.shape_hash())),
        }
    }
    fn to_json(&self) -> J {
        match self {
            TNode::Leaf(s) => J::Str(format!("u{} r{:?} w{:?}", s.uid, s.reads.iter().map(|x| x.label()).collect::<Vec<_>>(), s.writes.iter().map(|x| x.label()).collect::<Vec<_>>())),
            TNode::Par(c) => J::obj().set("par", J::Arr(c.iter().map(|x| x.to_json()).collect())),
            TNode::Seq(c) => J::obj().set("seq", J::Arr(c.iter().map(|x| x.to_json()).collect())),
        }
    }
    /// first j >= 1 of some par node (in construction order) whose child conflicts with the
    /// children already there; None if every `Par::with` is conflict-free
    fn first_conflicting_with(&self) -> bool {
        match self {
            TNode::Leaf(_) => false,
            TNode::Seq(c) => c.iter().any(|x| x.first_conflicting_with()),
            TNode::Par(c) => {
                if c.iter().any(|x| x.first_conflicting_with()) {
                    return true;
                }
                let mut acc = Access::default();
                for (j, ch) in c.iter().enumerate() {
                    let a = ch.access();
                    if j > 0 && a.conflicts(&acc) {
                        return true;
                    }
                    acc.union(&a);
                }
                false
            }
        }
    }
}

// ------------------------------------------------------------------------------------------------
// Zero-sized leaf systems (unit structs with library system data): everything they need to
// report lives in statics, keyed by the type's number. At most one of each per tree.
// ------------------------------------------------------------------------------------------------

pub const NZ: usize = 6;
static Z_CTX: std::sync::RwLock<Option<Arc<Ctx>>> = std::sync::RwLock::new(None);
static Z_UID: [std::sync::atomic::AtomicU32; NZ] = [const { std::sync::atomic::AtomicU32::new(0) }; NZ];
static Z_OBS: [std::sync::atomic::AtomicU64; NZ] = [const { std::sync::atomic::AtomicU64::new(0) }; NZ];

/// (reads, writes) of zero-sized leaf type `z` (all under dynamic id 0)
pub fn z_access(z: u8) -> (Vec<Slot>, Vec<Slot>) {
    let s = |t: usize| Slot::new(t, 0);
    match z {
        0 => (vec![s(0)], vec![]),
        1 => (vec![], vec![s(1)]),
        2 => (vec![s(2)], vec![s(3)]),
        3 => (vec![], vec![s(4)]),
        4 => (vec![s(0), s(5)], vec![]),
        _ => (vec![], vec![s(6)]),
    }
}

fn z_ctx() -> Arc<Ctx> {
    Z_CTX.read().unwrap_or_else(|e| e.into_inner()).clone().expect("zero-sized leaves need a context")
}

fn z_run(z: usize, body: impl FnOnce(&mut crate::sys::Body)) {
    let ctx = z_ctx();
    let uid = Z_UID[z].load(SeqCst);
    // the library has fetched the data already: the window starts here
    ctx.ev(Ev::FetchEnter, uid, 1);
    ctx.ev(Ev::FetchDone, uid, 0);
    ctx.gate(uid, Gate::PreRun);
    ctx.ev(Ev::RunStart, uid, 0);
    ctx.runs[uid as usize].fetch_add(1, SeqCst);
    ctx.last_thread[uid as usize].store(tid() as u32, SeqCst);
    let mut b = crate::sys::Body::new(&ctx, uid, Z_OBS[z].load(SeqCst));
    body(&mut b);
    Z_OBS[z].store(b.finish(), SeqCst);
    ctx.ends[uid as usize].fetch_add(1, SeqCst);
    ctx.ev(Ev::RunEnd, uid, 0);
    ctx.gate(uid, Gate::PostRun);
    ctx.gate(uid, Gate::PreRelease);
    ctx.ev(Ev::Released, uid, 0);
}

fn z_setup(z: usize) {
    let ctx = z_ctx();
    let uid = Z_UID[z].load(SeqCst);
    ctx.setups[uid as usize].fetch_add(1, SeqCst);
}

macro_rules! zst_leaf {
    ($name:ident, $z:expr, $data:ty, |$d:ident, $b:ident| $body:block) => {
        pub struct $name;
        impl<'a> System<'a> for $name {
            type SystemData = $data;
            fn run(&mut self, #[allow(unused_mut)] mut $d: Self::SystemData) {
                z_run($z, |$b| $body);
                drop($d);
            }
            fn setup(&mut self, world: &mut World) {
                z_setup($z);
                <Self::SystemData as SystemData>::setup(world);
            }
        }
    };
}

zst_leaf!(Z0, 0, Read<'a, R0>, |d, b| { b.read(Slot::new(0, 0), &*d); });
zst_leaf!(Z1, 1, Write<'a, R1>, |d, b| { b.write(Slot::new(1, 0), &mut *d); });
zst_leaf!(Z2, 2, (Read<'a, R2>, Write<'a, R3>), |d, b| { b.read(Slot::new(2, 0), &*d.0); b.write(Slot::new(3, 0), &mut *d.1); });
zst_leaf!(Z3, 3, Write<'a, R4>, |d, b| { b.write(Slot::new(4, 0), &mut *d); });
zst_leaf!(Z4, 4, (Read<'a, R0>, Read<'a, R5>), |d, b| { b.read(Slot::new(0, 0), &*d.0); b.read(Slot::new(5, 0), &*d.1); });
zst_leaf!(Z5, 5, Write<'a, R6>, |d, b| { b.write(Slot::new(6, 0), &mut *d); });

/// A user's own zero-sized system that happens to be called `Nil` (the library's list terminator
/// of that name is private).
pub mod list {
    use super::*;
    zst_leaf!(Nil, 5, Write<'a, R6>, |d, b| { b.write(Slot::new(6, 0), &mut *d); });
}

fn build_zst(z: u8) -> Boxed {
    match z {
        0 => Boxed(Box::new(Z0)),
        1 => Boxed(Box::new(Z1)),
        2 => Boxed(Box::new(Z2)),
        3 => Boxed(Box::new(Z3)),
        4 => Boxed(Box::new(Z4)),
        _ => Boxed(Box::new(Z5)),
    }
}

// ------------------------------------------------------------------------------------------------
// A leaf whose access set is decided at run time and may change after it was added to a tree
// (a script system that resolves its resources in `setup`, say): a node reports what its leaves
// declare *now*.
// ------------------------------------------------------------------------------------------------

type SharedAccess = Arc<std::sync::Mutex<(Vec<Slot>, Vec<Slot>)>>;

pub struct MutAcc {
    cur: (Vec<Slot>, Vec<Slot>),
}

impl Accessor for MutAcc {
    fn try_new() -> Option<Self> {
        None
    }
    fn reads(&self) -> Vec<ResourceId> {
        self.cur.0.iter().map(|s| s.rid()).collect()
    }
    fn writes(&self) -> Vec<ResourceId> {
        self.cur.1.iter().map(|s| s.rid()).collect()
    }
}

pub struct MutData;

impl<'a> DynamicSystemData<'a> for MutData {
    type Accessor = MutAcc;
    fn setup(_: &MutAcc, _: &mut World) {}
    fn fetch(_: &MutAcc, _: &'a World) -> Self {
        MutData
    }
}

pub struct MutLeaf {
    shared: SharedAccess,
}

impl<'a> System<'a> for MutLeaf {
    type SystemData = MutData;
    fn run(&mut self, _: MutData) {}
    fn accessor<'b>(&'b self) -> AccessorCow<'a, 'b, Self> {
        AccessorCow::Owned(MutAcc { cur: self.shared.lock().unwrap_or_else(|e| e.into_inner()).clone() })
    }
}

/// Real nodes: `Par::new(c0).with(c1)` re-boxed, `.with(c2)` ...
fn build(node: &TNode, ctx: &Arc<Ctx>) -> Boxed {
    match node {
        // two leaf flavours: accessor type without / with a default (`try_new()`)
        TNode::Leaf(s) => {
            if let Kind::Static(z) = s.kind {
                Z_UID[z as usize].store(s.uid, SeqCst);
                Z_OBS[z as usize].store(0, SeqCst);
                return build_zst(z);
            }
            if s.uid % 2 == 0 {
                Boxed(Box::new(HSys::new(s, ctx)))
            } else {
                Boxed(Box::new(HSysD::new(s, ctx)))
            }
        }
        TNode::Par(c) => {
            let mut acc = build(&c[0], ctx);
            if c.len() == 1 {
                return Boxed(Box::new(Par::new(acc)));
            }
            for ch in &c[1..] {
                acc = Boxed(Box::new(Par::new(acc).with(build(ch, ctx))));
            }
            acc
        }
        TNode::Seq(c) => {
            let mut acc = build(&c[0], ctx);
            if c.len() == 1 {
                return Boxed(Box::new(Seq::new(acc)));
            }
            for ch in &c[1..] {
                acc = Boxed(Box::new(Seq::new(acc).with(build(ch, ctx))));
            }
            acc
        }
    }
}

struct TG<'r> {
    rng: &'r mut Rng,
    uid: u32,
    ro: Vec<Slot>,
}

impl<'r> TG<'r> {
    fn node(&mut self, depth_left: usize, writable: Vec<Slot>, fan: usize) -> TNode {
        let leaf = depth_left == 0 || self.rng.chance(1, 4);
        if leaf {
            let uid = self.uid;
            self.uid += 1;
            let mut w = writable.clone();
            self.rng.shuffle(&mut w);
            let wmax = if writable.len() > 40 { self.rng.range(0, 12) } else { self.rng.range(0, 2) };
            w.truncate(wmax.min(w.len()));
            let mut rpool: Vec<Slot> = writable.iter().filter(|s| !w.contains(s)).cloned().chain(self.ro.iter().cloned()).collect();
            self.rng.shuffle(&mut rpool);
            rpool.truncate(self.rng.range(0, 3).min(rpool.len()));
            return TNode::Leaf(SysSpec { uid, name: String::new(), deps: vec![], reads: rpool, writes: w, time: 3, kind: Kind::Dyn });
        }
        let k = self.rng.range(1, fan);
        if self.rng.chance(1, 2) {
            // par: children get disjoint parts of the writable pool
            let mut parts: Vec<Vec<Slot>> = vec![Vec::new(); k];
            for s in writable {
                let i = self.rng.below(k);
                parts[i].push(s);
            }
            TNode::Par(parts.into_iter().map(|p| self.node(depth_left - 1, p, fan)).collect())
        } else {
            TNode::Seq((0..k).map(|_| self.node(depth_left - 1, writable.clone(), fan)).collect())
        }
    }
}

fn gen_tree(rng: &mut Rng) -> TNode {
    // every 8th tree ranges over all 128 resources (a par node may then mention > 64 distinct ones)
    let wide = rng.chance(1, 8) && !crate::props::sched::tiny();
    let mut all: Vec<Slot> = if wide { Slot::all_ext().collect() } else { Slot::all().collect() };
    rng.shuffle(&mut all);
    let ro = all.split_off(all.len() - 6);
    let tiny = crate::props::sched::tiny();
    let depth = if tiny { rng.range(1, 2) } else { rng.range(1, 5) };
    let fan = if tiny { 2 } else { rng.range(2, 6) };
    let mut g = TG { rng, uid: 1, ro };
    // the root is an inner node
    let mut t = loop {
        let t = g.node(depth, all.clone(), fan);
        if !matches!(t, TNode::Leaf(_)) {
            break t;
        }
    };
    // every third tree: some leaves are zero-sized systems (unit structs with library system
    // data) whose resources nobody else in the tree touches
    if g.rng.chance(1, 3) {
        let a = t.access();
        let mut taken: std::collections::BTreeSet<Slot> = a.reads.iter().chain(a.writes.iter()).cloned().collect();
        let mut used = [false; NZ];
        fn go(t: &mut TNode, rng: &mut Rng, used: &mut [bool; NZ], taken: &mut std::collections::BTreeSet<Slot>) {
            match t {
                TNode::Leaf(s) => {
                    if rng.chance(1, 3) {
                        let z = rng.below(NZ);
                        let (r, w) = z_access(z as u8);
                        if !used[z] && r.iter().chain(w.iter()).all(|x| !taken.contains(x)) {
                            used[z] = true;
                            taken.extend(r.iter().chain(w.iter()).cloned());
                            s.reads = r;
                            s.writes = w;
                            s.kind = Kind::Static(z as u8);
                        }
                    }
                }
                TNode::Par(c) | TNode::Seq(c) => c.iter_mut().for_each(|x| go(x, rng, used, taken)),
            }
        }
        go(&mut t, g.rng, &mut used, &mut taken);
    }
    t
}

/// Makes some par node conflicting by giving one leaf a write to a slot a par-sibling uses.
fn poison(t: &mut TNode, rng: &mut Rng) -> bool {
    match t {
        TNode::Leaf(_) => false,
        TNode::Seq(c) => {
            let i = rng.below(c.len());
            poison(&mut c[i], rng)
        }
        TNode::Par(c) => {
            if c.len() >= 2 && rng.chance(2, 3) {
                let i = rng.below(c.len());
                let j = (i + 1 + rng.below(c.len() - 1)) % c.len();
                let a = c[j].access();
                let victim_slot = a.writes.iter().chain(a.reads.iter()).next().cloned();
                if let Some(sl) = victim_slot {
                    // first leaf of child i
                    fn first_leaf(n: &mut TNode) -> &mut SysSpec {
                        match n {
                            TNode::Leaf(s) => s,
                            TNode::Par(c) | TNode::Seq(c) => first_leaf(&mut c[0]),
                        }
                    }
                    let l = first_leaf(&mut c[i]);
                    // (a zero-sized leaf cannot change what it declares: it becomes an ordinary one)
                    l.kind = Kind::Dyn;
                    if a.writes.contains(&sl) && rng.chance(1, 2) {
                        if !l.reads.contains(&sl) && !l.writes.contains(&sl) {
                            l.reads.push(sl);
                        }
                    } else if !l.writes.contains(&sl) {
                        l.reads.retain(|x| *x != sl);
                        l.writes.push(sl);
                    }
                    return true;
                }
                false
            } else {
                let i = rng.below(c.len());
                poison(&mut c[i], rng)
            }
        }
    }
}

fn seq_pairs<'a>(t: &'a TNode, out: &mut Vec<(Vec<u32>, Vec<u32>)>) {
    match t {
        TNode::Leaf(_) => {}
        TNode::Par(c) => c.iter().for_each(|x| seq_pairs(x, out)),
        TNode::Seq(c) => {
            for i in 0..c.len() {
                seq_pairs(&c[i], out);
                if i + 1 < c.len() {
                    let (mut a, mut b) = (Vec::new(), Vec::new());
                    c[i].leaves(&mut a);
                    c[i + 1].leaves(&mut b);
                    out.push((a.iter().map(|s| s.uid).collect(), b.iter().map(|s| s.uid).collect()));
                }
            }
        }
    }
}

fn case(rng: &mut Rng, pools: &mut std::collections::HashMap<usize, Pool>, rep: &mut Report, case_no: u64) {
    let mut tree = gen_tree(rng);
    let poisoned = rng.chance(1, 3) && poison(&mut tree, rng);
    let mut leaves = Vec::new();
    tree.leaves(&mut leaves);
    let leaves: Vec<SysSpec> = leaves.into_iter().cloned().collect();
    let n_uids = leaves.iter().map(|l| l.uid).max().unwrap_or(0) as usize + 1;
    rep.evaluations += 1;
    let (mut npar, mut nseq) = (0, 0);
    tree.kinds(&mut npar, &mut nseq);
    rep.metric_max("depth", tree.depth() as i64);
    rep.metric_max("leaves", leaves.len() as i64);
    let ctx = Ctx::new(n_uids, leaves.len() * 6 + 64);
    *Z_CTX.write().unwrap_or_else(|e| e.into_inner()) = Some(ctx.clone());
    let zst_leaves = leaves.iter().filter(|l| matches!(l.kind, Kind::Static(_))).count();
    rep.metric("zero_sized_leaves", zst_leaves as i64);
    let expect_panic = tree.first_conflicting_with();
    let built = catch_unwind(AssertUnwindSafe(|| build(&tree, &ctx)));
    let detail = |tree: &TNode| J::obj().set("tree", tree.to_json());
    let nontrivial = tree.depth() >= 2 && npar > 0 && nseq > 0;
    let root = match (built, expect_panic) {
        (Err(p), true) => {
            let msg = payload_str(&*p);
            rep.metric("conflicting_with_rejected", 1);
            let _ = msg; // any panic is a rejection: the wording is not part of the property
            if nontrivial {
                rep.nontrivial(mix(tree.shape_hash(), 0xbad));
            }
            return;
        }
        (Err(p), false) => {
            rep.violation("with_rejected_compatible_child", &format!("Par::with panicked although the new child conflicts with nothing already in the node: {}", payload_str(&*p)), case_no, detail(&tree));
            return;
        }
        (Ok(_), true) => {
            rep.violation("with_accepted_conflicting_child", "Par::with accepted a child whose access conflicts with the children already in the par node (debug assertions are on)", case_no, detail(&tree));
            return;
        }
        (Ok(r), false) => r,
    };
    let _ = poisoned;
    exercise(&tree, &leaves, root, &ctx, nontrivial, rng, pools, rep, case_no);
}

/// Everything that is checked on a tree that was accepted: reported access, setup, dispatches.
#[allow(clippy::too_many_arguments)]
fn exercise(tree: &TNode, leaves: &[SysSpec], root: Boxed, ctx: &Arc<Ctx>, nontrivial: bool, rng: &mut Rng, pools: &mut std::collections::HashMap<usize, Pool>, rep: &mut Report, case_no: u64) {
    let detail = |tree: &TNode| J::obj().set("tree", tree.to_json());
    // ---- reads()/writes() of the root ----
    let (mut r, mut w) = (Vec::new(), Vec::new());
    root.reads(&mut r);
    root.writes(&mut w);
    let mut want_r: Vec<ResourceId> = leaves.iter().flat_map(|l| l.reads.iter().map(|s| s.rid())).collect();
    let mut want_w: Vec<ResourceId> = leaves.iter().flat_map(|l| l.writes.iter().map(|s| s.rid())).collect();
    r.sort();
    w.sort();
    want_r.sort();
    want_w.sort();
    if r != want_r || w != want_w {
        rep.violation("root_access", &format!("the root reports {} reads / {} writes, its leaves declare {} / {} (as multisets they differ)", r.len(), w.len(), want_r.len(), want_w.len()), case_no, detail(tree));
        return;
    }
    // ---- setup reaches every leaf; dispatch from outside and from inside the pool ----
    let pool_size = if crate::props::sched::tiny() { rng.range(1, 3) } else { *rng.pick(&[1usize, 2, 3, 4, 8, 16]) };
    let pool = pools.entry(pool_size).or_insert_with(|| make_pool(pool_size)).clone();
    let mut world = World::empty();
    let mut ps = ParSeq::new(root, pool.clone());
    // setup may be called again (another world, or after resources were removed): every call
    // reaches every leaf
    let rounds = rng.range(1, 3) as u32;
    for round in 1..=rounds {
        if round == 2 {
            world = World::empty();
        }
        if round == 3 {
            for l in leaves {
                for sl in l.reads.iter().chain(l.writes.iter()) {
                    if rng.chance(1, 3) {
                        remove_slot(&mut world, *sl);
                    }
                }
            }
        }
        if round % 2 == 1 {
            ps.setup(&mut world);
        } else {
            shred::RunNow::setup(&mut ps, &mut world);
        }
        for l in leaves {
            let n = ctx.setups[l.uid as usize].load(SeqCst);
            if n != round {
                rep.violation("setup_missed_leaf", &format!("after {} call(s) of ParSeq::setup leaf u{} has been set up {} times", round, l.uid, n), case_no, detail(tree));
                return;
            }
            for sl in l.reads.iter().chain(l.writes.iter()) {
                if probe(&world, *sl) == Probe::Absent {
                    rep.violation("setup_left_resource_missing", &format!("after {} call(s) of ParSeq::setup the resource {} of leaf u{} does not exist", round, sl.label(), l.uid), case_no, detail(tree));
                    return;
                }
            }
        }
    }
    rep.metric("setup_rounds", rounds as i64);
    let mut pairs = Vec::new();
    seq_pairs(tree, &mut pairs);
    rep.metric("seq_adjacent_pairs", pairs.len() as i64);
    let ndisp = rng.range(2, 3);
    for di in 0..ndisp {
        let inside = rng.chance(1, 2);
        ctx.log.reset();
        ctx.arm(Arc::new(Jitter { seed: rng.next(), level: 0 }));
        ctx.set_mode(Mode::Run);
        let before = ctx.run_counts();
        let res = catch_unwind(AssertUnwindSafe(|| {
            if inside {
                pool.install(|| ps.dispatch(&world))
            } else if di % 2 == 0 {
                ps.dispatch(&world)
            } else {
                shred::RunNow::run_now(&mut ps, &world)
            }
        }));
        ctx.set_mode(Mode::Build);
        ctx.disarm();
        rep.metric(if inside { "dispatch_from_inside_pool" } else { "dispatch_from_outside_pool" }, 1);
        if let Err(p) = res {
            let msg = payload_str(&*p);
            let kind = if classify(&msg) == PanicKind::BorrowConflict { "borrow_conflict_panic" } else { "dispatch_panicked" };
            rep.violation(kind, &format!("dispatching a conflict-free tree panicked: {}", msg), case_no, detail(tree));
            return;
        }
        let now = ctx.run_counts();
        for l in leaves {
            let d = now[l.uid as usize] - before[l.uid as usize];
            if d != 1 {
                rep.violation(if d == 0 { "leaf_skipped" } else { "leaf_repeated" }, &format!("leaf u{} ran {} times in one dispatch of the tree", l.uid, d), case_no, detail(tree));
                return;
            }
        }
        let evs = ctx.log.since(0);
        let mut f = Vec::new();
        let w = collect_windows(&evs, &mut f);
        let win = |u: u32| w.by_uid.get(&u).and_then(|v| v.last()).cloned();
        for (a, b) in &pairs {
            let a_end = a.iter().filter_map(|u| win(*u)).map(|x| x.rel).max().unwrap_or(0);
            let b_start = b.iter().filter_map(|u| win(*u)).map(|x| x.enter).min().unwrap_or(usize::MAX);
            if !(a_end < b_start) {
                rep.violation(
                    "seq_order",
                    &format!("in a seq node a leaf of the later child (leaves {:?}) entered at ts {} before every leaf of the earlier child (leaves {:?}) had ended (ts {})", b, b_start, a, a_end),
                    case_no,
                    detail(tree).set("events", J::Arr(evs.iter().take(60).map(|e| J::Str(e.show())).collect())),
                );
                return;
            }
        }
        // conflicting leaves never overlap (they are always ordered by some seq node in such a tree)
        for i in 0..leaves.len() {
            for j in 0..i {
                if Access::of(&leaves[i].reads, &leaves[i].writes).conflicts(&Access::of(&leaves[j].reads, &leaves[j].writes)) {
                    if let (Some(x), Some(y)) = (win(leaves[i].uid), win(leaves[j].uid)) {
                        if x.overlaps(&y) {
                            rep.violation("conflicting_leaves_overlap", &format!("conflicting leaves u{} and u{} overlapped", leaves[i].uid, leaves[j].uid), case_no, detail(tree));
                            return;
                        }
                    }
                }
            }
        }
        for v in ctx.take_violations() {
            if v.starts_with("torn") {
                rep.violation("torn_value", &v, case_no, detail(tree));
                return;
            }
        }
        rep.metric("tree_dispatches", 1);
    }
    if nontrivial {
        rep.nontrivial(tree.shape_hash());
    }
    if rep.samples.len() < rep.max_samples && nontrivial && leaves.len() < 10 {
        rep.sample(J::obj().set("case", case_no).set("tree", tree.to_json()).set("pool", pool_size).set("dispatches", ndisp).set("seq_adjacent_pairs", pairs.len()));
    }
}

// ------------------------------------------------------------------------------------------------
// Statically typed trees (the `par!` / `seq!` macros over concrete leaf types, zero-sized ones
// included): the run-time trees above box every child, which hides the children's own types.
// ------------------------------------------------------------------------------------------------

fn static_tree_case(rng: &mut Rng, pools: &mut std::collections::HashMap<usize, Pool>, rep: &mut Report, case_no: u64) {
    use shred::{par, seq};
    let zl = |z: u8| {
        let (r, w) = z_access(z);
        TNode::Leaf(SysSpec { uid: z as u32 + 1, name: String::new(), deps: vec![], reads: r, writes: w, time: 3, kind: Kind::Static(z) })
    };
    // two ordinary (non-zero-sized) leaves on resources no zero-sized leaf touches
    let h = |uid: u32, dy: usize| SysSpec { uid, name: String::new(), deps: vec![], reads: vec![Slot::new(7, dy)], writes: vec![Slot::new(6, dy + 1)], time: 3, kind: Kind::Dyn };
    let (ha, hb) = (h(8, 1), h(9, 2));
    let ctx = Ctx::new(12, 256);
    *Z_CTX.write().unwrap_or_else(|e| e.into_inner()) = Some(ctx.clone());
    for z in 0..NZ {
        Z_UID[z].store(z as u32 + 1, SeqCst);
        Z_OBS[z].store(0, SeqCst);
    }
    let which = rng.below(11);
    let built: Result<(TNode, Boxed), _> = catch_unwind(AssertUnwindSafe(|| match which {
        0 => (TNode::Seq(vec![zl(0), zl(1), zl(3)]), Boxed(Box::new(seq![Z0, Z1, Z3,]))),
        1 => (TNode::Par(vec![zl(0), zl(1), zl(3)]), Boxed(Box::new(par![Z0, Z1, Z3,]))),
        2 => (TNode::Seq(vec![TNode::Par(vec![zl(0), zl(1)]), zl(3)]), Boxed(Box::new(seq![par![Z0, Z1,], Z3,]))),
        3 => (TNode::Par(vec![TNode::Seq(vec![zl(1), zl(3)]), zl(0)]), Boxed(Box::new(par![seq![Z1, Z3,], Z0,]))),
        4 => (TNode::Seq(vec![zl(1), TNode::Seq(vec![zl(3), zl(5)]), zl(0)]), Boxed(Box::new(seq![Z1, seq![Z3, Z5,], Z0,]))),
        5 => (
            TNode::Par(vec![TNode::Seq(vec![zl(0), zl(2)]), TNode::Seq(vec![zl(1), zl(5)]), zl(3)]),
            Boxed(Box::new(par![seq![Z0, Z2,], seq![Z1, Z5,], Z3,])),
        ),
        6 => (
            TNode::Seq(vec![TNode::Leaf(ha.clone()), zl(1), TNode::Leaf(hb.clone())]),
            Boxed(Box::new(seq![HSys::new(&ha, &ctx), Z1, HSys::new(&hb, &ctx),])),
        ),
        7 => (
            TNode::Par(vec![TNode::Leaf(ha.clone()), TNode::Seq(vec![zl(2), TNode::Leaf(hb.clone()), zl(5)])]),
            Boxed(Box::new(par![HSys::new(&ha, &ctx), seq![Z2, HSysD::new(&hb, &ctx), Z5,],])),
        ),
        8 => (TNode::Seq(vec![zl(4), zl(3), zl(2), zl(1), zl(5)]), Boxed(Box::new(seq![Z4, Z3, Z2, Z1, Z5,]))),
        9 => (TNode::Par(vec![zl(0), zl(5), zl(3)]), Boxed(Box::new(par![Z0, list::Nil, Z3,]))),
        _ => (TNode::Seq(vec![zl(1), TNode::Par(vec![zl(3), zl(5)])]), Boxed(Box::new(seq![Z1, par![Z3, list::Nil,],]))),
    }));
    rep.evaluations += 1;
    rep.metric("statically_typed_trees", 1);
    let (tree, root) = match built {
        Ok(x) => x,
        Err(p) => {
            rep.violation("with_rejected_compatible_child", &format!("building conflict-free static tree #{} panicked: {}", which, payload_str(&*p)), case_no, J::Null);
            return;
        }
    };
    let mut lv = Vec::new();
    tree.leaves(&mut lv);
    let leaves: Vec<SysSpec> = lv.into_iter().cloned().collect();
    exercise(&tree, &leaves, root, &ctx, true, rng, pools, rep, case_no);
}

/// A leaf changes its (run-time) access set after it was added to a node: the node's reads() and
/// writes() follow, and so does the conflict check of a later `Par::with`.
fn mutable_access_case(rng: &mut Rng, rep: &mut Report, case_no: u64) {
    rep.evaluations += 1;
    let mut pool: Vec<Slot> = Slot::all().collect();
    rng.shuffle(&mut pool);
    let mut take = |n: usize| -> Vec<Slot> { (0..n).filter_map(|_| pool.pop()).collect() };
    let (a_r0, a_w0) = (take(rng.range(0, 2)), take(rng.range(1, 2)));
    let (b_r, b_w) = (take(rng.range(0, 2)), take(rng.range(0, 2)));
    let (a_r1, a_w1) = (take(rng.range(0, 2)), take(rng.range(1, 2)));
    let shared_a: SharedAccess = Arc::new(std::sync::Mutex::new((a_r0.clone(), a_w0.clone())));
    let shared_b: SharedAccess = Arc::new(std::sync::Mutex::new((b_r.clone(), b_w.clone())));
    let par_root = rng.chance(2, 3);
    let a_first = rng.chance(1, 2);
    let (la, lb) = (Boxed(Box::new(MutLeaf { shared: shared_a.clone() })), Boxed(Box::new(MutLeaf { shared: shared_b.clone() })));
    let (first, second) = if a_first { (la, lb) } else { (lb, la) };
    let built = catch_unwind(AssertUnwindSafe(|| if par_root { Boxed(Box::new(Par::new(first).with(second))) } else { Boxed(Box::new(Seq::new(first).with(second))) }));
    let root = match built {
        Ok(r) => r,
        Err(p) => {
            rep.violation("with_rejected_compatible_child", &format!("two leaves with disjoint access were rejected: {}", payload_str(&*p)), case_no, J::Null);
            return;
        }
    };
    let sorted = |v: Vec<ResourceId>| {
        let mut v = v;
        v.sort();
        v
    };
    let rids = |a: &[Slot], b: &[Slot]| sorted(a.iter().chain(b.iter()).map(|s| s.rid()).collect());
    let report = |root: &Boxed| {
        let (mut r, mut w) = (Vec::new(), Vec::new());
        root.reads(&mut r);
        root.writes(&mut w);
        (sorted(r), sorted(w))
    };
    let d = |what: &str| J::obj().set("scenario", what).set("root", if par_root { "par" } else { "seq" });
    let (r, w) = report(&root);
    if r != rids(&a_r0, &b_r) || w != rids(&a_w0, &b_w) {
        rep.violation("root_access", "a two-leaf node does not report the union of its leaves' reads / writes", case_no, d("before the change"));
        return;
    }
    // the leaf re-decides what it accesses (as a script system does in its setup)
    *shared_a.lock().unwrap() = (a_r1.clone(), a_w1.clone());
    let (r, w) = report(&root);
    if r != rids(&a_r1, &b_r) || w != rids(&a_w1, &b_w) {
        rep.violation(
            "root_access:after_a_leaf_changed_its_access",
            &format!("a leaf changed its run-time access set after it was added; the node still reports {} reads / {} writes, its leaves now declare {} / {}", r.len(), w.len(), rids(&a_r1, &b_r).len(), rids(&a_w1, &b_w).len()),
            case_no,
            d("after the change"),
        );
        return;
    }
    // a third child under a par node: conflicts are judged against what the children declare now
    let vs_new = rng.chance(1, 2);
    let c_w = if vs_new { vec![a_w1[0]] } else { vec![a_w0[0]] };
    let shared_c: SharedAccess = Arc::new(std::sync::Mutex::new((vec![], c_w.clone())));
    let res = catch_unwind(AssertUnwindSafe(move || Boxed(Box::new(Par::new(root).with(Boxed(Box::new(MutLeaf { shared: shared_c })))))));
    rep.metric("mutable_access_cases", 1);
    match (res, vs_new) {
        (Ok(_), true) => rep.violation("with_accepted_conflicting_child", "Par::with accepted a child that writes what a leaf of the node (after changing its access set) writes now", case_no, d("third child vs. the new access")),
        (Err(p), false) => rep.violation("with_rejected_compatible_child", &format!("Par::with rejected a child that only touches what a leaf used to write before it changed its access set: {}", payload_str(&*p)), case_no, d("third child vs. the old access")),
        _ => rep.nontrivial(mix(0x16a, (par_root as u64) << 2 | (a_first as u64) << 1 | vs_new as u64)),
    }
}

/// "children of a par node may overlap": rendezvous of k leaves under one par root, with control.
fn overlap_case(rng: &mut Rng, rep: &mut Report, case_no: u64) {
    let k = rng.range(2, 8);
    let pool_size = if rng.chance(1, 2) { k } else { 16 };
    let pool = make_pool(pool_size);
    let leaves: Vec<SysSpec> = (0..k)
        .map(|i| SysSpec { uid: i as u32 + 1, name: String::new(), deps: vec![], reads: vec![], writes: vec![Slot::new(i / NDYN, i % NDYN)], time: 3, kind: Kind::Dyn })
        .collect();
    // mix of flat par and par-of-seq-of-one
    let tree = TNode::Par(leaves.iter().map(|l| if rng.chance(1, 3) { TNode::Seq(vec![TNode::Leaf(l.clone())]) } else { TNode::Leaf(l.clone()) }).collect());
    let ctx = Ctx::new(k + 1, k * 6 + 64);
    let root = build(&tree, &ctx);
    let world = full_world();
    let mut ps = ParSeq::new(root, pool.clone());
    rep.evaluations += 1;
    let wait = Duration::from_secs(10);
    let o = Arc::new(Overlap::new(vec![leaves.iter().map(|l| l.uid).collect()], wait));
    // 0 = from outside any pool, 1 = from inside the own pool, 2 = from a worker of a *different*,
    // narrow pool (for the tree's pool that is "outside": its children may still overlap)
    let from = rng.below(3);
    let foreign = make_pool(1);
    let inside = from == 1;
    for _ in 0..20 {
        ctx.log.reset();
        ctx.arm(o.clone());
        ctx.set_mode(Mode::Run);
        match from {
            1 => pool.install(|| ps.dispatch(&world)),
            2 => foreign.install(|| ps.dispatch(&world)),
            _ => ps.dispatch(&world),
        }
        ctx.set_mode(Mode::Build);
        ctx.disarm();
        if o.gave_up.load(SeqCst) > 0 {
            break;
        }
    }
    rep.metric("par_rendezvous_completed", (o.completed.load(SeqCst) / k) as i64);
    if o.gave_up.load(SeqCst) > 0 {
        // control: k plain closures on the same pool
        let arrived = std::sync::atomic::AtomicUsize::new(0);
        let okc = std::sync::atomic::AtomicUsize::new(0);
        pool.scope(|s| {
            for _ in 0..k {
                s.spawn(|_| {
                    arrived.fetch_add(1, SeqCst);
                    if wait_until(std::time::Instant::now() + wait, || arrived.load(SeqCst) >= k) {
                        okc.fetch_add(1, SeqCst);
                    }
                });
            }
        });
        if okc.load(SeqCst) == k {
            rep.violation(
                "par_children_serialised",
                &format!("{} leaves under one par node could not all be inside run at once on a pool of {} threads (dispatch called {}), a plain rayon rendezvous on the same pool succeeds", k, pool_size, ["from outside any pool", "from inside the pool", "from a worker of a different 1-thread pool"][from]),
                case_no,
                J::obj().set("tree", tree.to_json()),
            );
        } else {
            rep.inconclusive += 1;
        }
    } else {
        rep.nontrivial(mix(0x0e11, mix(k as u64, pool_size as u64 + from as u64 * 100)));
        let _ = inside;
    }
}

pub fn run(args: &Args) -> i32 {
    let mut rep = Report::new(args);
    let mut pools = std::collections::HashMap::new();
    if args.has("--tiny") {
        crate::props::sched::TINY.store(true, SeqCst);
    }
    let n = args.count(6_400, 120_000);
    let range: Vec<u64> = match args.case {
        Some(c) => vec![c],
        None => (0..n).collect(),
    };
    for c in range {
        if rep.time_up() {
            break;
        }
        let mut rng = Rng::new(args.case_seed(c));
        if c % 50 == 49 && !crate::props::sched::tiny() {
            guard_case(&mut rep, c, |rep| overlap_case(&mut rng, rep, c));
        } else if c % 25 == 12 {
            guard_case(&mut rep, c, |rep| mutable_access_case(&mut rng, rep, c));
        } else if c % 25 == 17 {
            guard_case(&mut rep, c, |rep| static_tree_case(&mut rng, &mut pools, rep, c));
        } else {
            guard_case(&mut rep, c, |rep| case(&mut rng, &mut pools, rep, c));
        }
    }
    rep.finish();
    0
}
