//! Small deterministic PRNG (splitmix64 seeding a xoshiro256**), no external crates.

#[derive(Clone, Debug)]
pub struct Rng {
    s: [u64; 4],
}

pub fn splitmix(x: &mut u64) -> u64 {
    *x = x.wrapping_add(0x9E37_79B9_7F4A_7C15);
    let mut z = *x;
    z = (z ^ (z >> 30)).wrapping_mul(0xBF58_476D_1CE4_E5B9);
    z = (z ^ (z >> 27)).wrapping_mul(0x94D0_49BB_1331_11EB);
    z ^ (z >> 31)
}

/// Order-sensitive 64-bit mixer used for digests.
#[inline]
pub fn mix(h: u64, v: u64) -> u64 {
    let mut x = h ^ v.wrapping_mul(0x9E37_79B9_7F4A_7C15);
    x = (x ^ (x >> 32)).wrapping_mul(0xD6E8_FEB8_6659_FD93);
    x = (x ^ (x >> 32)).wrapping_mul(0xD6E8_FEB8_6659_FD93);
    (x ^ (x >> 32)).rotate_left(17).wrapping_add(0x1234_5678_9ABC_DEF1)
}

pub fn hash_str(s: &str) -> u64 {
    let mut h = 0xcbf2_9ce4_8422_2325u64;
    for b in s.bytes() {
        h ^= b as u64;
        h = h.wrapping_mul(0x100_0000_01b3);
    }
    h
}

impl Rng {
    pub fn new(seed: u64) -> Self {
        let mut x = seed ^ 0xA076_1D64_78BD_642F;
        let s = [splitmix(&mut x), splitmix(&mut x), splitmix(&mut x), splitmix(&mut x)];
        Rng { s }
    }

    pub fn next(&mut self) -> u64 {
        let r = self.s[1].wrapping_mul(5).rotate_left(7).wrapping_mul(9);
        let t = self.s[1] << 17;
        self.s[2] ^= self.s[0];
        self.s[3] ^= self.s[1];
        self.s[1] ^= self.s[2];
        self.s[0] ^= self.s[3];
        self.s[2] ^= t;
        self.s[3] = self.s[3].rotate_left(45);
        r
    }

    /// uniform in 0..n (n > 0)
    pub fn below(&mut self, n: usize) -> usize {
        debug_assert!(n > 0);
        (self.next() % n as u64) as usize
    }

    /// uniform in lo..=hi
    pub fn range(&mut self, lo: usize, hi: usize) -> usize {
        lo + self.below(hi - lo + 1)
    }

    pub fn chance(&mut self, num: usize, den: usize) -> bool {
        self.below(den) < num
    }

    pub fn pick<'a, T>(&mut self, v: &'a [T]) -> &'a T {
        &v[self.below(v.len())]
    }

    pub fn shuffle<T>(&mut self, v: &mut [T]) {
        for i in (1..v.len()).rev() {
            let j = self.below(i + 1);
            v.swap(i, j);
        }
    }

    pub fn fork(&mut self) -> Rng {
        Rng::new(self.next())
    }
}
