//! Oracles: deterministic functions over (plan, recovered layout) and (plan, event log).
//! They restate the properties; they know nothing of shred's placement heuristic.

use std::collections::{BTreeSet, HashMap};

use crate::ctx::{Ev, Event};
use crate::layout::Layout;
use crate::plan::*;
use crate::rng::mix;

#[derive(Clone, Debug)]
pub struct Finding {
    /// properties this observation refutes
    pub props: Vec<&'static str>,
    /// stable signature of the kind of failure (used for known-finding matching)
    pub kind: String,
    pub msg: String,
}

impl Finding {
    pub fn new(props: &[&'static str], kind: &str, msg: String) -> Finding {
        Finding { props: props.to_vec(), kind: kind.to_string(), msg }
    }
    pub fn is(&self, p: &str) -> bool {
        self.props.iter().any(|x| *x == p)
    }
}

fn with_c07(base: &'static str, inner_or_batch: bool) -> Vec<&'static str> {
    if inner_or_batch {
        vec![base, "C07"]
    } else {
        vec![base]
    }
}

#[derive(Clone, Debug, Default)]
pub struct LStats {
    pub levels: usize,
    pub units: usize,
    pub conflict_pairs: usize,
    pub dep_edges: usize,
    pub barrier_pairs: usize,
    /// barrier-ordered pairs that have neither a conflict nor a dependency between them
    pub barrier_only_pairs: usize,
    pub c10_skipped_stages: usize,
    pub c10_late_units: usize,
    pub batches: usize,
    pub batch_extra_access: usize,
    pub parallel_stages: usize,
}

/// Structural invariants of the live dispatcher. `reported_max_threads`: what `max_threads()`
/// said for this level (None = not available).
pub fn l_oracle(
    plan: &Plan,
    layout: &Layout,
    path: &str,
    depth: usize,
    reported_max_threads: Option<usize>,
    out: &mut Vec<Finding>,
    st: &mut LStats,
) {
    let rel = Relations::of(plan);
    let n = rel.units.len();
    st.levels += 1;
    st.units += n;
    let pos = layout.pos();
    let inner = depth > 0;

    // ---- structure / exactly-once at the layout level (C04) ----
    let mut ok = true;
    if layout.n_units() != n {
        out.push(Finding::new(
            &with_c07("C04", inner),
            "shape_sum",
            format!("{}: layout holds {} systems, {} were registered; layout {}", path, layout.n_units(), n, layout.brief()),
        ));
        ok = false;
    }
    let mut seen: HashMap<u32, usize> = HashMap::new();
    for st_ in &layout.stages {
        for g in st_ {
            for u in g {
                *seen.entry(*u).or_insert(0) += 1;
            }
        }
    }
    for u in &rel.units {
        match seen.get(&u.uid) {
            Some(1) => {}
            Some(k) => {
                out.push(Finding::new(&with_c07("C04", inner), "layout_dup", format!("{}: u{} appears {} times in the layout", path, u.uid, k)));
                ok = false;
            }
            None => {
                out.push(Finding::new(&with_c07("C04", inner), "layout_missing", format!("{}: u{} does not appear in the layout {}", path, u.uid, layout.brief())));
                ok = false;
            }
        }
    }
    for (u, _) in seen.iter() {
        if !rel.index.contains_key(u) {
            out.push(Finding::new(&with_c07("C04", inner), "layout_foreign", format!("{}: u{} in the layout was not registered at this level", path, u)));
            ok = false;
        }
    }
    for g in layout.stages.iter().flatten() {
        if g.is_empty() {
            out.push(Finding::new(&["C10"], "empty_group", format!("{}: empty group in layout {}", path, layout.brief())));
        }
    }
    // thread-local systems: count and order
    let want_tl: Vec<u32> = plan.tls().iter().map(|t| t.uid).collect();
    if layout.tls != want_tl {
        let p: &[&'static str] = if layout.tls.len() != want_tl.len() { &["C04", "C12"] } else { &["C12"] };
        out.push(Finding::new(p, "tl_order", format!("{}: thread-local systems execute as {:?}, registered as {:?}", path, layout.tls, want_tl)));
    }
    if !ok {
        return;
    }

    let p = |i: usize| pos[&rel.units[i].uid];
    let nstages = layout.stages.len();
    let mut by_stage: Vec<Vec<usize>> = vec![Vec::new(); nstages];
    for i in 0..n {
        by_stage[p(i).0].push(i);
    }
    st.parallel_stages += layout.stages.iter().filter(|s| s.len() >= 2).count();

    // ---- isolation (C01 / C07) ----
    for stage in &by_stage {
        for (a, &i) in stage.iter().enumerate() {
            for &j in &stage[a + 1..] {
                if rel.conflict(i, j) {
                    st.conflict_pairs += 1;
                    if p(i).1 != p(j).1 {
                        let b = inner || rel.units[i].is_batch || rel.units[j].is_batch;
                        out.push(Finding::new(
                            &with_c07("C01", b),
                            "layout_conflict_side_by_side",
                            format!(
                                "{}: u{} and u{} conflict but sit in different groups of stage {}: layout {}",
                                path, rel.units[i].uid, rel.units[j].uid, p(i).0, layout.brief()
                            ),
                        ));
                    }
                }
            }
        }
    }
    // count conflicting pairs overall (for the non-triviality rule)
    // (pairs in different stages are separated by construction)

    // ---- dependencies (C02) ----
    for y in 0..n {
        for &d in &rel.deps[y] {
            st.dep_edges += 1;
            let (pd, py) = (p(d), p(y));
            let ok = pd.0 < py.0 || (pd.0 == py.0 && pd.1 == py.1 && pd.2 < py.2);
            if !ok {
                out.push(Finding::new(
                    &with_c07("C02", inner),
                    "layout_dep_not_before",
                    format!(
                        "{}: u{} depends on u{} but is placed at {:?} while the dependency is at {:?}: layout {}",
                        path, rel.units[y].uid, rel.units[d].uid, py, pd, layout.brief()
                    ),
                ));
            }
        }
    }

    // ---- barriers (C03) ----
    // max stage per segment / min stage per segment is enough
    let nseg = rel.segment.last().map(|s| s + 1).unwrap_or(0);
    let mut seg_max = vec![0usize; nseg];
    let mut seg_min = vec![usize::MAX; nseg];
    for i in 0..n {
        let s = rel.segment[i];
        seg_max[s] = seg_max[s].max(p(i).0);
        seg_min[s] = seg_min[s].min(p(i).0);
    }
    let mut run_max = 0usize;
    for s in 0..nseg {
        if s > 0 {
            st.barrier_pairs += 1;
            if seg_min[s] <= run_max {
                // find a witness pair
                let y = (0..n).find(|&i| rel.segment[i] == s && p(i).0 == seg_min[s]).unwrap();
                let x = (0..n).find(|&i| rel.segment[i] < s && p(i).0 >= seg_min[s]).unwrap();
                out.push(Finding::new(
                    &with_c07("C03", inner),
                    "layout_barrier",
                    format!(
                        "{}: u{} (registered after a barrier) is in stage {} but u{} (before it) is in stage {}: layout {}",
                        path, rel.units[y].uid, p(y).0, rel.units[x].uid, p(x).0, layout.brief()
                    ),
                ));
            }
        }
        run_max = run_max.max(seg_max[s]);
    }
    // barrier-only ordered pairs (non-triviality for C03): count pairs across adjacent segments
    // without conflict and without dependency (bounded work)
    if nseg > 1 {
        let mut budget = 2000usize;
        'outer: for j in 0..n {
            for i in 0..j {
                if rel.segment[i] < rel.segment[j] {
                    if budget == 0 {
                        break 'outer;
                    }
                    budget -= 1;
                    if !rel.conflict(i, j) && !rel.deps_tc[j].contains(&i) {
                        st.barrier_only_pairs += 1;
                    }
                }
            }
        }
    }

    // ---- placement justification (C10) ----
    // first_allowed(x) = 1 + max stage of anything registered before the last effective barrier
    let mut prefix_max: Vec<Option<usize>> = vec![None; nseg + 1];
    {
        let mut m: Option<usize> = None;
        for s in 0..nseg {
            prefix_max[s] = m; // max over segments < s
            let sm = seg_max[s];
            m = Some(m.map_or(sm, |x| x.max(sm)));
        }
    }
    for x in 0..n {
        let px = p(x).0;
        let first = prefix_max[rel.segment[x]].map_or(0, |m| m + 1);
        if px > first {
            st.c10_late_units += 1;
        }
        for s in first..px {
            st.c10_skipped_stages += 1;
            let conflict_there = by_stage[s].iter().any(|&y| y < x && rel.conflict(x, y));
            let dep_there_or_later = rel.deps[x].iter().any(|&d| p(d).0 >= s);
            if !conflict_there && !dep_there_or_later {
                let why = if !rel.units[x].deps.is_empty() {
                    let mut names = rel.units[x].deps.clone();
                    names.sort();
                    let dup = names.windows(2).any(|w| w[0] == w[1]);
                    let pre_barrier = rel.deps[x].iter().any(|&d| rel.segment[d] < rel.segment[x]);
                    if dup && pre_barrier {
                        "dup_dep+pre_barrier_dep"
                    } else if dup {
                        "dup_dep"
                    } else if pre_barrier {
                        "pre_barrier_dep"
                    } else {
                        "with_deps"
                    }
                } else {
                    "no_deps"
                };
                out.push(Finding::new(
                    &["C10"],
                    &format!("unjustified_skip:{}", why),
                    format!(
                        "{}: u{} is in stage {} but could be in stage {} (first allowed {}): no earlier-registered conflicting system there and all its dependencies {:?} are in earlier stages; layout {}",
                        path,
                        rel.units[x].uid,
                        px,
                        s,
                        first,
                        rel.deps[x].iter().map(|&d| (rel.units[d].uid, p(d).0)).collect::<Vec<_>>(),
                        layout.brief()
                    ),
                ));
                break;
            }
        }
    }
    if let Some(mt) = reported_max_threads {
        if mt != usize::MAX && mt != layout.width() {
            out.push(Finding::new(
                &["C10"],
                "max_threads",
                format!("{}: max_threads() = {} but the widest stage has {} groups: layout {}", path, mt, layout.width(), layout.brief()),
            ));
        }
    }

    // ---- recursion into batches (C07) ----
    for b in plan.batches() {
        st.batches += 1;
        let ctl = b.ctl_access();
        let all = b.access();
        if all != ctl {
            st.batch_extra_access += 1;
        }
        match layout.batches.get(&b.uid) {
            Some(Some(inner_layout)) => {
                let mt = layout.max_threads.get(&b.uid).cloned();
                l_oracle(&b.inner, inner_layout, &format!("{}/batch{}", path, b.uid), depth + 1, mt, out, st);
            }
            Some(None) => {}
            None => out.push(Finding::new(&["C04", "C07"], "batch_not_identified", format!("{}: batch u{} never reported its inner layout", path, b.uid))),
        }
    }
}

// ------------------------------------------------------------------------------------------------
// Event-log oracle
// ------------------------------------------------------------------------------------------------

#[derive(Clone, Copy, Debug)]
pub struct Win {
    pub enter: usize,
    pub rel: usize,
    pub thread: u16,
    pub closed: bool,
}

impl Win {
    pub fn overlaps(&self, o: &Win) -> bool {
        self.enter < o.rel && o.enter < self.rel
    }
}

#[derive(Clone, Debug)]
pub struct EOpts {
    /// thread-local systems of the top level are expected to run in this trace
    pub expect_tl: bool,
    pub caller_thread: u16,
    /// the top-level dispatch was a parallel one (for the KF1 signature)
    pub outer_mode: &'static str,
    /// number of top-level dispatches contained in the trace (1 except for async histories)
    pub top_mult: usize,
    /// the dispatch was cut short by a (caught) panic: run counts are not judged, and ordering /
    /// isolation are judged on the windows that exist (an unwound window is open to the end)
    pub partial: bool,
    /// how often the top-level thread-local systems are expected to run in this trace
    /// (None = once per top-level dispatch; async: once per `wait`)
    pub tl_mult: Option<usize>,
}

#[derive(Clone, Debug, Default)]
pub struct EStats {
    pub windows: usize,
    pub conflict_pairs_checked: usize,
    pub dep_pairs_checked: usize,
    pub barrier_pairs_checked: usize,
    pub unordered_pairs: usize,
    pub unordered_overlaps: usize,
    pub tl_windows: usize,
    pub order_hash: u64,
    pub threads: BTreeSet<u16>,
    pub inner_epochs: usize,
}

pub struct Windows {
    pub by_uid: HashMap<u32, Vec<Win>>,
    pub ctl_rel: HashMap<u32, Vec<usize>>,
    /// timestamp of the last event every uid logged (lower bound for the end of an unwound run)
    pub last_ev: HashMap<u32, usize>,
    pub t0: usize,
    pub t1: usize,
}

pub fn collect_windows(evs: &[Event], out: &mut Vec<Finding>) -> Windows {
    let mut by_uid: HashMap<u32, Vec<Win>> = HashMap::new();
    let mut ctl_rel: HashMap<u32, Vec<usize>> = HashMap::new();
    let mut last_ev: HashMap<u32, usize> = HashMap::new();
    let mut t0 = evs.first().map(|e| e.ts).unwrap_or(0);
    let mut t1 = evs.last().map(|e| e.ts + 1).unwrap_or(0);
    for e in evs {
        if e.uid != 0 {
            last_ev.insert(e.uid, e.ts);
        }
        match e.kind {
            Ev::DispBegin => t0 = e.ts,
            Ev::DispEnd => t1 = e.ts,
            Ev::FetchEnter => {
                let v = by_uid.entry(e.uid).or_default();
                if let Some(last) = v.last() {
                    if !last.closed && e.aux != 1 {
                        // a second entry while the previous window of the same system is open
                        out.push(Finding::new(&["C04"], "reentered", format!("u{} entered run_now again at ts {} while its previous run (ts {}) had not ended", e.uid, e.ts, last.enter)));
                    }
                }
                v.push(Win { enter: e.ts, rel: usize::MAX, thread: e.thread, closed: false });
            }
            Ev::Released => {
                if let Some(w) = by_uid.get_mut(&e.uid).and_then(|v| v.last_mut()) {
                    if !w.closed {
                        w.rel = e.ts;
                        w.closed = true;
                    }
                }
            }
            Ev::CtlDataRel => ctl_rel.entry(e.uid).or_default().push(e.ts),
            _ => {}
        }
    }
    Windows { by_uid, ctl_rel, last_ev, t0, t1 }
}

fn descendant_uids(p: &Plan, v: &mut Vec<u32>) {
    p.walk(&mut |it, _| match it {
        Item::Sys(s) => v.push(s.uid),
        Item::Batch(b) => v.push(b.uid),
        Item::Tl(t) => v.push(t.uid),
        Item::Barrier | Item::Failed(_) => {}
    });
}

/// MultiDispatcher batches cannot log their own end; it is synthesised as the last event of
/// anything inside them (post-order so nested ones are closed first).
fn close_multi(plan: &Plan, w: &mut Windows) {
    for b in plan.batches() {
        close_multi(&b.inner, w);
        if !b.multi {
            continue;
        }
        let mut desc = Vec::new();
        descendant_uids(&b.inner, &mut desc);
        let own: Vec<Win> = w.by_uid.get(&b.uid).cloned().unwrap_or_default();
        let mut closed = Vec::new();
        for (j, win) in own.iter().enumerate() {
            let bound = own.get(j + 1).map(|n| n.enter).unwrap_or(w.t1);
            let mut rel = w
                .ctl_rel
                .get(&b.uid)
                .and_then(|v| v.iter().find(|t| **t > win.enter && **t < bound).cloned())
                .unwrap_or(win.enter + 1);
            for d in &desc {
                if let Some(ws) = w.by_uid.get(d) {
                    for x in ws {
                        if x.enter > win.enter && x.enter < bound && x.closed {
                            rel = rel.max(x.rel);
                        }
                    }
                }
            }
            closed.push(Win { enter: win.enter, rel, thread: win.thread, closed: true });
        }
        w.by_uid.insert(b.uid, closed);
    }
}

pub fn e_oracle(plan: &Plan, evs: &[Event], opts: &EOpts, out: &mut Vec<Finding>) -> EStats {
    let mut st = EStats::default();
    let mut h = 0x0e0eu64;
    for e in evs {
        st.threads.insert(e.thread);
        if matches!(e.kind, Ev::FetchEnter | Ev::FetchDone | Ev::RunStart | Ev::RunEnd | Ev::Released) {
            h = mix(h, (e.kind as u64) << 32 | e.uid as u64);
        }
    }
    st.order_hash = h;
    let mut w = collect_windows(evs, out);
    close_multi(plan, &mut w);
    st.windows = w.by_uid.values().map(|v| v.len()).sum();
    // everything lies between the caller's begin and end marks
    for (u, ws) in &w.by_uid {
        for x in ws {
            if x.enter < w.t0 || (x.closed && x.rel > w.t1) {
                out.push(Finding::new(&["C04", "C15"], "outside_dispatch", format!("u{} ran at ts {}..{} outside the dispatch call {}..{}", u, x.enter, x.rel, w.t0, w.t1)));
            }
        }
    }
    check_level(plan, None, opts.top_mult, 0, "top", &w, opts, out, &mut st);
    st
}

#[allow(clippy::too_many_arguments)]
fn check_level(
    plan: &Plan,
    parent: Option<(&BatchSpec, &Vec<Win>)>,
    mult: usize,
    depth: usize,
    path: &str,
    w: &Windows,
    opts: &EOpts,
    out: &mut Vec<Finding>,
    st: &mut EStats,
) {
    let rel = Relations::of(plan);
    let n = rel.units.len();
    let inner = depth > 0;
    let empty: Vec<Win> = Vec::new();
    let wins: Vec<&Vec<Win>> = rel.units.iter().map(|u| w.by_uid.get(&u.uid).unwrap_or(&empty)).collect();
    let mut ok = true;
    if opts.partial {
        check_level_partial(plan, &rel, &wins, depth, path, w, opts, out, st);
        for b in plan.batches() {
            let idx = rel.index[&b.uid];
            check_level(&b.inner, Some((b, wins[idx])), mult * b.k as usize, depth + 1, &format!("{}/batch{}", path, b.uid), w, opts, out, st);
        }
        return;
    }
    for (i, u) in rel.units.iter().enumerate() {
        if wins[i].len() != mult {
            out.push(Finding::new(
                &with_c07("C04", inner),
                "run_count_log",
                format!("{}: u{} ran {} times in this dispatch, expected {}", path, u.uid, wins[i].len(), mult),
            ));
            ok = false;
        } else if wins[i].iter().any(|x| !x.closed) {
            ok = false; // unwound; pairwise checks need closed windows
        }
    }
    let tls = plan.tls();
    let expect_tl = inner || opts.expect_tl;
    let tl_wins: Vec<&Vec<Win>> = tls.iter().map(|t| w.by_uid.get(&t.uid).unwrap_or(&empty)).collect();
    let mut tl_ok = ok;
    let tl_n = if inner { mult } else { opts.tl_mult.unwrap_or(mult) };
    for (i, t) in tls.iter().enumerate() {
        let want = if expect_tl { tl_n } else { 0 };
        if tl_wins[i].len() != want {
            out.push(Finding::new(
                &["C04", "C12"],
                "tl_run_count_log",
                format!("{}: thread-local u{} ran {} times in this dispatch, expected {}", path, t.uid, tl_wins[i].len(), want),
            ));
            tl_ok = false;
        }
    }
    if inner {
        st.inner_epochs += mult;
    }

    if ok {
        for j in 0..mult {
            // pairwise relations of this epoch
            for y in 0..n {
                let wy = &wins[y][j];
                for x in 0..y {
                    let wx = &wins[x][j];
                    let dep = rel.deps_tc[y].contains(&x);
                    let bar = rel.segment[x] < rel.segment[y];
                    let conf = rel.conflict(x, y);
                    if dep {
                        st.dep_pairs_checked += 1;
                        if !(wx.rel < wy.enter) {
                            out.push(Finding::new(
                                &with_c07("C02", inner),
                                "log_dep_overtaken",
                                format!(
                                    "{}: u{} (depends on u{}) entered at ts {} before u{} ended at ts {} (epoch {})",
                                    path, rel.units[y].uid, rel.units[x].uid, wy.enter, rel.units[x].uid, wx.rel, j
                                ),
                            ));
                        }
                    }
                    if bar {
                        st.barrier_pairs_checked += 1;
                        if !(wx.rel < wy.enter) {
                            out.push(Finding::new(
                                &with_c07("C03", inner),
                                "log_barrier_overtaken",
                                format!(
                                    "{}: u{} (after a barrier) entered at ts {} before u{} (before the barrier) ended at ts {} (epoch {})",
                                    path, rel.units[y].uid, wy.enter, rel.units[x].uid, wx.rel, j
                                ),
                            ));
                        }
                    }
                    if conf {
                        st.conflict_pairs_checked += 1;
                        if wx.overlaps(wy) {
                            let b = inner || rel.units[x].is_batch || rel.units[y].is_batch;
                            out.push(Finding::new(
                                &with_c07("C01", b),
                                "log_conflict_overlap",
                                format!(
                                    "{}: conflicting u{} [{}..{}] and u{} [{}..{}] overlapped (epoch {})",
                                    path, rel.units[x].uid, wx.enter, wx.rel, rel.units[y].uid, wy.enter, wy.rel, j
                                ),
                            ));
                        }
                    }
                    if !dep && !bar && !conf {
                        st.unordered_pairs += 1;
                        if wx.overlaps(wy) {
                            st.unordered_overlaps += 1;
                        }
                    }
                }
            }
        }
        // epochs do not overtake each other
        for j in 1..mult {
            let prev_max = (0..n).map(|i| wins[i][j - 1].rel).max().unwrap_or(0);
            let cur_min = (0..n).map(|i| wins[i][j].enter).min().unwrap_or(usize::MAX);
            if n > 0 && !(prev_max < cur_min) {
                out.push(Finding::new(
                    &with_c07("C04", inner),
                    "epoch_overtaken",
                    format!("{}: dispatch epoch {} started (ts {}) before epoch {} had ended (ts {})", path, j, cur_min, j - 1, prev_max),
                ));
            }
        }
        // inner windows lie inside the parent's window
        if let Some((b, pw)) = parent {
            let k = b.k as usize;
            if k > 0 {
                for i in 0..n {
                    for j in 0..mult {
                        if let Some(p) = pw.get(j / k) {
                            let x = &wins[i][j];
                            // a MultiDispatcher batch cannot log its own end: it is synthesised
                            // as the last event inside it, hence `<=` there
                            let inside = p.enter < x.enter && (x.rel < p.rel || (b.multi && x.rel <= p.rel));
                            if !inside {
                                out.push(Finding::new(
                                    &["C07"],
                                    "inner_outside_batch",
                                    format!("{}: u{} [{}..{}] ran outside its batch u{}'s run [{}..{}]", path, rel.units[i].uid, x.enter, x.rel, b.uid, p.enter, p.rel),
                                ));
                            }
                        }
                    }
                }
            }
        }
    }

    // ---- thread-local systems ----
    if tl_ok && expect_tl && !tls.is_empty() && tl_n <= mult {
        for j in 0..tl_n {
            st.tl_windows += tls.len();
            // with fewer thread-local runs than dispatches (async: several dispatches, one wait)
            // the runs belong to the last epochs
            let ej = mult - tl_n + j;
            let all_end = (0..n).map(|i| wins[i][ej].rel).max().unwrap_or(0);
            let mut prev_rel = 0usize;
            for (i, t) in tls.iter().enumerate() {
                let x = &tl_wins[i][j];
                if n > 0 && !(all_end < x.enter) {
                    out.push(Finding::new(
                        &["C12", "C03"],
                        "tl_before_others_ended",
                        format!("{}: thread-local u{} started at ts {} before all ordinary systems had ended (ts {})", path, t.uid, x.enter, all_end),
                    ));
                }
                if i > 0 && !(prev_rel < x.enter) {
                    out.push(Finding::new(
                        &["C12"],
                        "tl_order_or_overlap",
                        format!("{}: thread-local u{} started at ts {} before its predecessor in registration order ended (ts {})", path, t.uid, x.enter, prev_rel),
                    ));
                }
                prev_rel = x.rel;
                // one thread-local pass per dispatch: it is over before the next dispatch of the
                // same dispatcher (the next inner dispatch of a batch) starts its systems
                if tl_n == mult && ej + 1 < mult && n > 0 {
                    let next_start = (0..n).map(|i| wins[i][ej + 1].enter).min().unwrap_or(usize::MAX);
                    if !(x.rel < next_start) {
                        out.push(Finding::new(
                            &with_c07("C12", inner),
                            "tl_after_next_dispatch_started",
                            format!("{}: thread-local u{} of dispatch {} ended at ts {}, after the systems of dispatch {} had started (ts {})", path, t.uid, ej, x.rel, ej + 1, next_start),
                        ));
                    }
                }
                if x.thread != opts.caller_thread {
                    if inner {
                        // which thread ran the controller (i.e. called the inner dispatch)?
                        let ctl_thread = parent.and_then(|(b, pw)| {
                            let k = (b.k as usize).max(1);
                            pw.get(j / k).map(|p| p.thread)
                        });
                        if ctl_thread == Some(x.thread) {
                            out.push(Finding::new(
                                &["C12"],
                                "tl_inside_batch_on_worker_with_controller",
                                format!(
                                    "{}: thread-local u{} registered inside a batch ran on thread {} - the pool worker that ran its controller - while the caller of the outermost dispatch is thread {} (outer mode {})",
                                    path, t.uid, x.thread, opts.caller_thread, opts.outer_mode
                                ),
                            ));
                        } else {
                            out.push(Finding::new(
                                &["C12"],
                                "tl_inside_batch_off_dispatching_thread",
                                format!(
                                    "{}: thread-local u{} registered inside a batch ran on thread {}, which is neither the caller (thread {}) nor the thread of its controller ({:?})",
                                    path, t.uid, x.thread, opts.caller_thread, ctl_thread
                                ),
                            ));
                        }
                    } else {
                        out.push(Finding::new(
                            &["C12"],
                            "tl_off_caller_thread",
                            format!("{}: thread-local u{} ran on thread {}, the caller is thread {}", path, t.uid, x.thread, opts.caller_thread),
                        ));
                    }
                }
            }
        }
    }

    for b in plan.batches() {
        let idx = rel.index[&b.uid];
        check_level(
            &b.inner,
            Some((b, wins[idx])),
            mult * b.k as usize,
            depth + 1,
            &format!("{}/batch{}", path, b.uid),
            w,
            opts,
            out,
            st,
        );
    }
}

/// Ordering / isolation on a dispatch that was cut short by a panic: only the first occurrence of
/// every unit is judged (inner levels of batches with k > 1 are covered by complete dispatches),
/// a window that never closed (its system unwound) counts as open until the end of the trace.
#[allow(clippy::too_many_arguments)]
fn check_level_partial(
    _plan: &Plan,
    rel: &Relations,
    wins: &[&Vec<Win>],
    depth: usize,
    path: &str,
    w: &Windows,
    _opts: &EOpts,
    out: &mut Vec<Finding>,
    st: &mut EStats,
) {
    let inner = depth > 0;
    let n = rel.units.len();
    let first: Vec<Option<Win>> = (0..n)
        .map(|i| {
            wins[i].first().map(|x| {
                let mut x = *x;
                if !x.closed {
                    // the run unwound at an unknown time after its last logged event: a sound
                    // lower bound for "ended"
                    x.rel = w.last_ev.get(&rel.units[i].uid).cloned().unwrap_or(x.enter).max(x.enter);
                }
                x
            })
        })
        .collect();
    for y in 0..n {
        let Some(wy) = first[y] else { continue };
        for x in 0..y {
            let dep = rel.deps_tc[y].contains(&x);
            let bar = rel.segment[x] < rel.segment[y];
            let conf = rel.conflict(x, y);
            match first[x] {
                None => {
                    // y ran although something it must follow never ran in this (cut short) dispatch
                    if dep {
                        out.push(Finding::new(&with_c07("C02", inner), "log_dep_skipped", format!("{}: u{} ran in a dispatch in which its dependency u{} never ran", path, rel.units[y].uid, rel.units[x].uid)));
                    }
                }
                Some(wx) => {
                    if dep {
                        st.dep_pairs_checked += 1;
                        if !(wx.rel < wy.enter) {
                            out.push(Finding::new(&with_c07("C02", inner), "log_dep_overtaken", format!("{}: (dispatch cut short by a panic) u{} entered at ts {} before its dependency u{} had ended (ts {})", path, rel.units[y].uid, wy.enter, rel.units[x].uid, wx.rel)));
                        }
                    }
                    if bar {
                        st.barrier_pairs_checked += 1;
                        if !(wx.rel < wy.enter) {
                            out.push(Finding::new(&with_c07("C03", inner), "log_barrier_overtaken", format!("{}: (dispatch cut short by a panic) u{} (after a barrier) entered at ts {} before u{} (before it) had ended (ts {})", path, rel.units[y].uid, wy.enter, rel.units[x].uid, wx.rel)));
                        }
                    }
                    if conf {
                        st.conflict_pairs_checked += 1;
                        if wx.overlaps(&wy) && wx.closed && wy.closed {
                            let b = inner || rel.units[x].is_batch || rel.units[y].is_batch;
                            out.push(Finding::new(&with_c07("C01", b), "log_conflict_overlap", format!("{}: (dispatch cut short by a panic) conflicting u{} [{}..{}] and u{} [{}..{}] overlapped", path, rel.units[x].uid, wx.enter, wx.rel, rel.units[y].uid, wy.enter, wy.rel)));
                        }
                    }
                }
            }
        }
    }
}

/// Splits a log into per-dispatch slices [DispBegin ..= DispEnd].
pub fn split_dispatches(evs: &[Event]) -> Vec<&[Event]> {
    let mut v = Vec::new();
    let mut start = None;
    for (i, e) in evs.iter().enumerate() {
        match e.kind {
            Ev::DispBegin => start = Some(i),
            Ev::DispEnd => {
                if let Some(s) = start.take() {
                    v.push(&evs[s..=i]);
                }
            }
            _ => {}
        }
    }
    v
}
