//! Resource universe of the harness: 8 payload types of different size, each usable under
//! 4 dynamic ids => 32 slots.  All access goes through shred's public by-id API so that real
//! `AtomicRefCell` borrows are taken.

/// Dispatch a run-time type index to a type alias.
#[macro_export]
macro_rules! with_ty {
    ($t:expr, $T:ident => $e:expr) => {
        match $t {
            0 => {
                type $T = $crate::res::R0;
                $e
            }
            1 => {
                type $T = $crate::res::R1;
                $e
            }
            2 => {
                type $T = $crate::res::R2;
                $e
            }
            3 => {
                type $T = $crate::res::R3;
                $e
            }
            4 => {
                type $T = $crate::res::R4;
                $e
            }
            5 => {
                type $T = $crate::res::R5;
                $e
            }
            6 => {
                type $T = $crate::res::R6;
                $e
            }
            7 => {
                type $T = $crate::res::R7;
                $e
            }
            _ => unreachable!("type index out of range"),
        }
    };
}
pub use with_ty;

use shred::{Fetch, FetchMut, ResourceId, World};

use crate::rng::mix;

pub const NTYPES: usize = 8;
/// dynamic ids used by the ordinary generators (the "standard" 32 slots)
pub const NDYN: usize = 4;
/// dynamic ids that exist at all (workloads that need > 64 distinct resources use them)
pub const NDYN_EXT: usize = 40;
/// number of standard slots
pub const NSTD: usize = NTYPES * NDYN;
/// capacity of arrays indexed by `Slot.0`
pub const NSLOTS: usize = NTYPES * NDYN_EXT;

/// slot = (type index, dynamic id)
#[derive(Clone, Copy, PartialEq, Eq, Hash, PartialOrd, Ord, Debug)]
pub struct Slot(pub u16);

impl Slot {
    pub fn new(ty: usize, dy: usize) -> Slot {
        debug_assert!(ty < NTYPES && dy < NDYN_EXT);
        Slot((ty * NDYN_EXT + dy) as u16)
    }
    pub fn ty(self) -> usize {
        self.0 as usize / NDYN_EXT
    }
    pub fn dy(self) -> usize {
        self.0 as usize % NDYN_EXT
    }
    pub fn rid(self) -> ResourceId {
        with_ty!(self.ty(), T => ResourceId::new_with_dynamic_id::<T>(self.dy() as u64))
    }
    /// the 32 standard slots
    pub fn all() -> impl Iterator<Item = Slot> {
        (0..NTYPES).flat_map(|t| (0..NDYN).map(move |d| Slot::new(t, d)))
    }
    /// all 320 slots (8 types x 40 dynamic ids)
    pub fn all_ext() -> impl Iterator<Item = Slot> {
        (0..NTYPES).flat_map(|t| (0..NDYN_EXT).map(move |d| Slot::new(t, d)))
    }
    pub fn is_std(self) -> bool {
        self.dy() < NDYN
    }
    pub fn label(self) -> String {
        format!("R{}#{}", self.ty(), self.dy())
    }
}

/// What every payload type offers. Writes are deliberately multi-word and non-atomic:
/// `a`, padding, `b` – a reader that overlaps a writer sees `a != b` (torn) and TSan/Miri see a race.
pub trait Pay: Send + Sync {
    fn a(&self) -> u64;
    fn b(&self) -> u64;
    fn hist(&self) -> u64;
    fn set(&mut self, x: u64, spin: u32);
    fn set_hist(&mut self, h: u64);
    fn pad_sum(&self) -> u64;
}

macro_rules! def_res {
    ($name:ident, $pad:expr) => {
        #[derive(Clone, Debug, PartialEq)]
        pub struct $name {
            pub a: u64,
            pub pad: [u64; $pad],
            pub b: u64,
            pub hist: u64,
        }
        impl Default for $name {
            fn default() -> Self {
                $name { a: 0, pad: [0; $pad], b: 0, hist: 0 }
            }
        }
        impl $name {
            pub fn with(x: u64) -> Self {
                $name { a: x, pad: [x; $pad], b: x, hist: 0 }
            }
        }
        impl Pay for $name {
            fn a(&self) -> u64 {
                self.a
            }
            fn b(&self) -> u64 {
                self.b
            }
            fn hist(&self) -> u64 {
                self.hist
            }
            #[inline(never)]
            fn set(&mut self, x: u64, spin: u32) {
                self.a = x;
                for i in 0..spin {
                    std::hint::black_box(i);
                    std::hint::spin_loop();
                }
                for p in self.pad.iter_mut() {
                    *p = x;
                }
                self.b = x;
            }
            fn set_hist(&mut self, h: u64) {
                self.hist = h;
            }
            fn pad_sum(&self) -> u64 {
                let mut s = 0u64;
                for p in self.pad.iter() {
                    s = s.wrapping_add(*p);
                }
                s
            }
        }
    };
}

def_res!(R0, 0);
def_res!(R1, 1);
def_res!(R2, 3);
def_res!(R3, 6);
def_res!(R4, 9);
def_res!(R5, 12);
def_res!(R6, 15);
def_res!(R7, 21);


macro_rules! def_guards {
    ($($v:ident : $t:ident),*) => {
        pub enum RGuard<'a> { $($v(Fetch<'a, $t>)),* }
        pub enum WGuard<'a> { $($v(FetchMut<'a, $t>)),* }
        impl<'a> RGuard<'a> {
            pub fn pay(&self) -> &dyn Pay { match self { $(RGuard::$v(g) => &**g),* } }
        }
        impl<'a> WGuard<'a> {
            pub fn pay(&self) -> &dyn Pay { match self { $(WGuard::$v(g) => &**g),* } }
            pub fn pay_mut(&mut self) -> &mut dyn Pay { match self { $(WGuard::$v(g) => &mut **g),* } }
        }
        $(
            impl<'a> From<Fetch<'a, $t>> for RGuard<'a> { fn from(g: Fetch<'a, $t>) -> Self { RGuard::$v(g) } }
            impl<'a> From<FetchMut<'a, $t>> for WGuard<'a> { fn from(g: FetchMut<'a, $t>) -> Self { WGuard::$v(g) } }
        )*
    };
}
def_guards!(G0: R0, G1: R1, G2: R2, G3: R3, G4: R4, G5: R5, G6: R6, G7: R7);

/// Real shared borrow through the public by-id API (panics on conflict exactly like user code would).
pub fn fetch_r(world: &World, s: Slot) -> Option<RGuard<'_>> {
    with_ty!(s.ty(), T => world.try_fetch_by_id::<T>(s.rid()).map(RGuard::from))
}

/// Real exclusive borrow through the public by-id API.
pub fn fetch_w(world: &World, s: Slot) -> Option<WGuard<'_>> {
    with_ty!(s.ty(), T => world.try_fetch_mut_by_id::<T>(s.rid()).map(WGuard::from))
}

pub fn insert_slot(world: &mut World, s: Slot, x: u64) {
    with_ty!(s.ty(), T => world.insert_by_id(s.rid(), T::with(x)))
}

pub fn insert_default(world: &mut World, s: Slot) {
    with_ty!(s.ty(), T => world.insert_by_id(s.rid(), T::default()))
}

pub fn remove_slot(world: &mut World, s: Slot) -> bool {
    with_ty!(s.ty(), T => world.remove_by_id::<T>(s.rid()).is_some())
}

/// A world that contains every slot, each with a distinct start value.
pub fn full_world() -> World {
    let mut w = World::empty();
    for s in Slot::all() {
        insert_slot(&mut w, s, 1000 + s.0 as u64);
    }
    w
}

/// The standard world plus the given (non-standard) slots.
pub fn full_world_with(extra: impl Iterator<Item = Slot>) -> World {
    let mut w = full_world();
    for s in extra {
        if !s.is_std() && !w.has_value_raw(s.rid()) {
            insert_slot(&mut w, s, 1000 + s.0 as u64);
        }
    }
    w
}

#[derive(Clone, Copy, PartialEq, Eq, Debug)]
pub enum Probe {
    Absent,
    Free,
    Shared,
    Excl,
}

/// Borrow state of one cell. Only meaningful at quiescent points (the probe is itself a borrow attempt).
pub fn probe_id(world: &World, id: ResourceId) -> Probe {
    // SAFETY: read-only use of the cell; nothing is swapped out.
    match unsafe { world.try_fetch_internal(id) } {
        None => Probe::Absent,
        Some(cell) => {
            if cell.try_borrow_mut().is_ok() {
                Probe::Free
            } else if cell.try_borrow().is_ok() {
                Probe::Shared
            } else {
                Probe::Excl
            }
        }
    }
}

pub fn probe(world: &World, s: Slot) -> Probe {
    probe_id(world, s.rid())
}

/// (a, b, hist, pad_sum) of a slot, read at a quiescent point.
pub fn slot_value(world: &World, s: Slot) -> Option<(u64, u64, u64, u64)> {
    fetch_r(world, s).map(|g| {
        let p = g.pay();
        (p.a(), p.b(), p.hist(), p.pad_sum())
    })
}

/// Order-sensitive digest of the complete world (all 32 slots; absent slots contribute a marker).
pub fn world_digest(world: &World) -> u64 {
    let mut h = 0x5eed_u64;
    for s in Slot::all_ext() {
        match slot_value(world, s) {
            // (a non-standard slot that does not exist is not part of the digest)
            None if !s.is_std() => {}
            None => h = mix(h, 0xdead_0000 + s.0 as u64),
            Some((a, b, hist, pad)) => {
                h = mix(h, a);
                h = mix(h, b);
                h = mix(h, hist);
                h = mix(h, pad);
            }
        }
    }
    h
}

/// Per-slot (a,b,hist) table for evidence / diffs.
pub fn world_table(world: &World) -> Vec<(Slot, Option<(u64, u64, u64, u64)>)> {
    Slot::all_ext().map(|s| (s, slot_value(world, s))).filter(|(s, v)| s.is_std() || v.is_some()).collect()
}
