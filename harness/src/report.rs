//! Per-shard report written as one JSON file; the python driver aggregates shards into evidence.

use std::collections::{BTreeMap, BTreeSet};
use std::time::Instant;

use crate::json::{hex, J};
use crate::rng::mix;

#[derive(Clone, Debug)]
pub struct Args {
    pub prop: String,
    pub seed: u64,
    pub shard: u64,
    pub nshards: u64,
    pub thorough: bool,
    pub out: Option<String>,
    pub case: Option<u64>,
    /// wall-clock cap for the whole shard; reaching it only stops generating further cases
    pub max_ms: u64,
    /// multiplies the per-tier case counts (used by sanitizer legs to scale down)
    pub scale: f64,
    pub verbose: bool,
    pub extra: Vec<String>,
    /// violation kinds listed as known findings for this property (do not trigger the early stop)
    pub known: Vec<String>,
}

impl Args {
    pub fn parse(argv: &[String]) -> Args {
        let mut a = Args {
            prop: argv.get(1).cloned().unwrap_or_default(),
            seed: 1,
            shard: 0,
            nshards: 1,
            thorough: false,
            out: None,
            case: None,
            max_ms: 0,
            scale: 1.0,
            verbose: false,
            extra: vec![],
            known: vec![],
        };
        let mut i = 2;
        while i < argv.len() {
            let v = |i: usize| argv.get(i + 1).cloned().unwrap_or_default();
            match argv[i].as_str() {
                "--seed" => {
                    a.seed = v(i).parse().unwrap_or(1);
                    i += 1;
                }
                "--shard" => {
                    a.shard = v(i).parse().unwrap_or(0);
                    i += 1;
                }
                "--nshards" => {
                    a.nshards = v(i).parse().unwrap_or(1);
                    i += 1;
                }
                "--out" => {
                    a.out = Some(v(i));
                    i += 1;
                }
                "--case" => {
                    a.case = v(i).parse().ok();
                    i += 1;
                }
                "--max-ms" => {
                    a.max_ms = v(i).parse().unwrap_or(0);
                    i += 1;
                }
                "--scale" => {
                    a.scale = v(i).parse().unwrap_or(1.0);
                    i += 1;
                }
                "--known" => {
                    a.known = v(i).split(',').filter(|x| !x.is_empty()).map(|x| x.to_string()).collect();
                    i += 1;
                }
                "--thorough" => a.thorough = true,
                "--quick" => a.thorough = false,
                "--verbose" => a.verbose = true,
                other => a.extra.push(other.to_string()),
            }
            i += 1;
        }
        a
    }

    pub fn case_seed(&self, case: u64) -> u64 {
        mix(mix(self.seed, 0x5151 + self.shard), case)
    }

    /// number of cases for this shard given a total for quick / thorough
    pub fn count(&self, quick_total: u64, thorough_total: u64) -> u64 {
        let t = if self.thorough { thorough_total } else { quick_total };
        let t = ((t as f64) * self.scale).ceil() as u64;
        (t + self.nshards - 1) / self.nshards
    }

    pub fn has(&self, flag: &str) -> bool {
        self.extra.iter().any(|x| x == flag)
    }

    pub fn replay_cmd(&self, case: u64) -> String {
        format!(
            "sv {} --seed {} --shard {} --nshards {} --case {}{}{}",
            self.prop,
            self.seed,
            self.shard,
            self.nshards,
            case,
            if self.thorough { " --thorough" } else { "" },
            self.extra.iter().map(|x| format!(" {}", x)).collect::<String>()
        )
    }
}

pub struct Report {
    pub args: Args,
    pub start: Instant,
    pub evaluations: u64,
    pub nontrivial: BTreeSet<u64>,
    pub samples: Vec<J>,
    pub max_samples: usize,
    pub violations: Vec<J>,
    pub violation_count: u64,
    pub unknown_count: u64,
    pub known_kinds: BTreeMap<String, u64>,
    pub inconclusive: u64,
    pub metrics: BTreeMap<String, i64>,
    pub sets: BTreeMap<String, BTreeSet<u64>>,
    pub notes: Vec<String>,
    pub stopped_by_time: bool,
    /// (case, plan hash, layout hash) rows for cross-process comparison
    pub table: Vec<(u64, u64, u64)>,
}

impl Report {
    pub fn new(args: &Args) -> Report {
        Report {
            args: args.clone(),
            start: Instant::now(),
            evaluations: 0,
            nontrivial: BTreeSet::new(),
            samples: Vec::new(),
            max_samples: 3,
            violations: Vec::new(),
            violation_count: 0,
            unknown_count: 0,
            known_kinds: BTreeMap::new(),
            inconclusive: 0,
            metrics: BTreeMap::new(),
            sets: BTreeMap::new(),
            notes: Vec::new(),
            stopped_by_time: false,
            table: Vec::new(),
        }
    }

    pub fn metric(&mut self, k: &str, v: i64) {
        *self.metrics.entry(k.to_string()).or_insert(0) += v;
    }
    pub fn metric_max(&mut self, k: &str, v: i64) {
        let e = self.metrics.entry(format!("max_{}", k)).or_insert(i64::MIN);
        if v > *e {
            *e = v;
        }
    }
    pub fn set_add(&mut self, k: &str, h: u64) {
        let s = self.sets.entry(k.to_string()).or_default();
        if s.len() < 40_000 {
            s.insert(h);
        }
    }
    pub fn sample(&mut self, j: J) {
        if self.samples.len() < self.max_samples {
            self.samples.push(j);
        }
    }
    pub fn nontrivial(&mut self, h: u64) {
        if self.nontrivial.len() < 40_000 {
            self.nontrivial.insert(h);
        }
    }

    pub fn violation(&mut self, kind: &str, msg: &str, case: u64, detail: J) {
        self.violation_count += 1;
        if !self.args.known.iter().any(|k| k == kind) {
            self.unknown_count += 1;
        }
        *self.known_kinds.entry(kind.to_string()).or_insert(0) += 1;
        let known = self.args.known.iter().any(|k| k == kind);
        let known_kept = self.violations.iter().filter(|v| matches!(v, J::Obj(o) if o.iter().any(|(k, x)| k == "kind" && matches!(x, J::Str(s) if self.args.known.iter().any(|kk| kk == s))))).count();
        if self.violations.len() < 14 && (!known || known_kept < 2) {
            self.violations.push(
                J::obj()
                    .set("kind", kind)
                    .set("msg", if msg.len() > 900 { format!("{} …", msg.chars().take(900).collect::<String>()) } else { msg.to_string() })
                    .set("case", case)
                    .set("replay_cmd", self.args.replay_cmd(case))
                    .set("detail", detail),
            );
        }
        if self.args.verbose || self.args.case.is_some() {
            eprintln!("VIOLATION[{}] {}: {}", self.args.prop, kind, msg);
        }
    }

    pub fn time_up(&mut self) -> bool {
        // a handful of witnesses is enough: do not keep a broken tree busy
        if self.unknown_count >= 6 && self.args.case.is_none() {
            return true;
        }
        if self.args.max_ms > 0 && self.start.elapsed().as_millis() as u64 > self.args.max_ms {
            self.stopped_by_time = true;
            true
        } else {
            false
        }
    }

    pub fn to_json(&self) -> J {
        let mut m = J::obj();
        for (k, v) in &self.metrics {
            m.put(k, *v);
        }
        let mut sets = J::obj();
        for (k, v) in &self.sets {
            sets.put(k, J::Arr(v.iter().map(|h| hex(*h)).collect()));
        }
        let mut kinds = J::obj();
        for (k, v) in &self.known_kinds {
            kinds.put(k, *v);
        }
        J::obj()
            .set("prop", &self.args.prop)
            .set("seed", self.args.seed)
            .set("shard", self.args.shard)
            .set("nshards", self.args.nshards)
            .set("tier", if self.args.thorough { "thorough" } else { "quick" })
            .set("evaluations", self.evaluations)
            .set("nontrivial", J::Arr(self.nontrivial.iter().map(|h| hex(*h)).collect()))
            .set("samples", J::Arr(self.samples.clone()))
            .set("violations", J::Arr(self.violations.clone()))
            .set("violation_count", self.violation_count)
            .set("violation_kinds", kinds)
            .set("inconclusive", self.inconclusive)
            .set("metrics", m)
            .set("sets", sets)
            .set("notes", J::Arr(self.notes.iter().map(|n| J::Str(n.clone())).collect()))
            .set("stopped_by_time", self.stopped_by_time)
            .set("table", J::Arr(self.table.iter().map(|(c, p, l)| J::Arr(vec![J::from(*c), hex(*p), hex(*l)])).collect()))
            .set("wall_s", self.start.elapsed().as_secs_f64())
    }

    pub fn finish(&self) {
        let s = self.to_json().to_string();
        match &self.args.out {
            Some(p) => std::fs::write(p, s).expect("write report"),
            None => println!("{}", s),
        }
    }
}


/// Runs one case; a panic that escapes the case (it was not expected and caught by the workload
/// itself) is recorded as a violation of the property under test instead of killing the shard.
pub fn guard_case(rep: &mut Report, case_no: u64, f: impl FnOnce(&mut Report)) {
    let r = std::panic::catch_unwind(std::panic::AssertUnwindSafe(|| f(rep)));
    if let Err(p) = r {
        let msg = crate::ctx::payload_str(&*p);
        rep.violation("unexpected_panic_in_case", &format!("a library call that the workload expects to succeed panicked: {}", msg), case_no, J::Null);
    }
}
