//! Minimal JSON value + serializer (no external crates).

use std::fmt::Write;

#[derive(Clone, Debug, PartialEq)]
pub enum J {
    Null,
    Bool(bool),
    Int(i64),
    Num(f64),
    Str(String),
    Arr(Vec<J>),
    Obj(Vec<(String, J)>),
}

impl J {
    pub fn obj() -> J {
        J::Obj(Vec::new())
    }
    pub fn set(mut self, k: &str, v: impl Into<J>) -> J {
        if let J::Obj(ref mut o) = self {
            o.push((k.to_string(), v.into()));
        }
        self
    }
    pub fn put(&mut self, k: &str, v: impl Into<J>) {
        if let J::Obj(ref mut o) = self {
            o.push((k.to_string(), v.into()));
        }
    }
    pub fn push(&mut self, v: impl Into<J>) {
        if let J::Arr(ref mut a) = self {
            a.push(v.into());
        }
    }
    pub fn to_string(&self) -> String {
        let mut s = String::new();
        self.write(&mut s);
        s
    }
    fn write(&self, s: &mut String) {
        match self {
            J::Null => s.push_str("null"),
            J::Bool(b) => s.push_str(if *b { "true" } else { "false" }),
            J::Int(i) => {
                let _ = write!(s, "{}", i);
            }
            J::Num(f) => {
                if f.is_finite() {
                    let _ = write!(s, "{}", f);
                } else {
                    s.push_str("null");
                }
            }
            J::Str(t) => esc(t, s),
            J::Arr(a) => {
                s.push('[');
                for (i, v) in a.iter().enumerate() {
                    if i > 0 {
                        s.push(',');
                    }
                    v.write(s);
                }
                s.push(']');
            }
            J::Obj(o) => {
                s.push('{');
                for (i, (k, v)) in o.iter().enumerate() {
                    if i > 0 {
                        s.push(',');
                    }
                    esc(k, s);
                    s.push(':');
                    v.write(s);
                }
                s.push('}');
            }
        }
    }
}

fn esc(t: &str, s: &mut String) {
    s.push('"');
    for c in t.chars() {
        match c {
            '"' => s.push_str("\\\""),
            '\\' => s.push_str("\\\\"),
            '\n' => s.push_str("\\n"),
            '\r' => s.push_str("\\r"),
            '\t' => s.push_str("\\t"),
            c if (c as u32) < 0x20 => {
                let _ = write!(s, "\\u{:04x}", c as u32);
            }
            c => s.push(c),
        }
    }
    s.push('"');
}

impl From<bool> for J {
    fn from(b: bool) -> J {
        J::Bool(b)
    }
}
impl From<i64> for J {
    fn from(b: i64) -> J {
        J::Int(b)
    }
}
impl From<u64> for J {
    fn from(b: u64) -> J {
        J::Int(b as i64)
    }
}
impl From<usize> for J {
    fn from(b: usize) -> J {
        J::Int(b as i64)
    }
}
impl From<u32> for J {
    fn from(b: u32) -> J {
        J::Int(b as i64)
    }
}
impl From<i32> for J {
    fn from(b: i32) -> J {
        J::Int(b as i64)
    }
}
impl From<u8> for J {
    fn from(b: u8) -> J {
        J::Int(b as i64)
    }
}
impl From<f64> for J {
    fn from(b: f64) -> J {
        J::Num(b)
    }
}
impl From<&str> for J {
    fn from(b: &str) -> J {
        J::Str(b.to_string())
    }
}
impl From<String> for J {
    fn from(b: String) -> J {
        J::Str(b)
    }
}
impl From<&String> for J {
    fn from(b: &String) -> J {
        J::Str(b.clone())
    }
}
impl<T: Into<J>> From<Vec<T>> for J {
    fn from(v: Vec<T>) -> J {
        J::Arr(v.into_iter().map(Into::into).collect())
    }
}
impl<T: Into<J> + Clone> From<&[T]> for J {
    fn from(v: &[T]) -> J {
        J::Arr(v.iter().cloned().map(Into::into).collect())
    }
}
impl<T: Into<J> + Clone> From<&Vec<T>> for J {
    fn from(v: &Vec<T>) -> J {
        J::Arr(v.iter().cloned().map(Into::into).collect())
    }
}
pub fn hex(h: u64) -> J {
    J::Str(format!("{:016x}", h))
}
