//! The plan model: a registration sequence as data (what the properties quantify over),
//! plus the harness's *own* computation of access sets, conflicts and dependency relations.
//! Nothing here looks at shred's data structures.

use std::collections::{BTreeSet, HashMap};

use crate::json::J;
use crate::res::Slot;
use crate::rng::{hash_str, mix};

#[derive(Clone, Debug, PartialEq)]
pub enum Kind {
    /// dynamic system: arbitrary slots, hand-written accessor
    Dyn,
    /// static system: library `SystemData` type number `menu` (see sys::menu)
    Static(u8),
}

#[derive(Clone, Debug)]
pub struct SysSpec {
    pub uid: u32,
    pub name: String,
    pub deps: Vec<String>,
    pub reads: Vec<Slot>,
    pub writes: Vec<Slot>,
    /// running-time hint 1..=5
    pub time: u8,
    pub kind: Kind,
}

#[derive(Clone, Debug)]
pub struct BatchSpec {
    pub uid: u32,
    pub name: String,
    pub deps: Vec<String>,
    /// controller's declared data: static menu number
    pub ctl_menu: u8,
    /// number of inner dispatches per controller run
    pub k: u32,
    /// controller is a `MultiDispatcher` (plan() == k)
    pub multi: bool,
    pub time: u8,
    pub inner: Plan,
}

#[derive(Clone, Debug)]
pub struct TlSpec {
    pub uid: u32,
    pub reads: Vec<Slot>,
    pub writes: Vec<Slot>,
}

#[derive(Clone, Debug)]
pub enum Item {
    Sys(SysSpec),
    Barrier,
    Batch(BatchSpec),
    /// thread-local registration (position among the items is irrelevant for shred, kept for C19)
    Tl(TlSpec),
    /// a registration attempt that panics and is caught by the caller - who carries on with the same
    /// builder. It registers nothing. Low nibble: 0 unknown dependency, 1 reuses the name of an
    /// earlier system (ill-formed calls); 2..5: the system's own code panics while the builder
    /// inspects it (`Accessor::reads`, `Accessor::writes`, `running_time`, `accessor`);
    /// `FAILED_NAMED` set: that system was given a (fresh, never referenced) name.
    Failed(u8),
}

pub const FAILED_NAMED: u8 = 16;

pub fn failed_label(k: u8) -> String {
    let what = match k & 15 {
        0 => "unknown dependency",
        1 => "reused name",
        2 => "the system's Accessor::reads panics",
        3 => "the system's Accessor::writes panics",
        4 => "the system's running_time panics",
        _ => "the system's accessor() panics",
    };
    format!("FAILED-ADD({}{}, caught)", what, if k & 15 >= 2 && k & FAILED_NAMED != 0 { ", named" } else { "" })
}

#[derive(Clone, Debug, Default)]
pub struct Plan {
    pub items: Vec<Item>,
}

/// Access set as two sorted sets.
#[derive(Clone, Debug, Default, PartialEq)]
pub struct Access {
    pub reads: BTreeSet<Slot>,
    pub writes: BTreeSet<Slot>,
}

impl Access {
    pub fn of(reads: &[Slot], writes: &[Slot]) -> Access {
        Access { reads: reads.iter().cloned().collect(), writes: writes.iter().cloned().collect() }
    }
    pub fn union(&mut self, o: &Access) {
        self.reads.extend(o.reads.iter().cloned());
        self.writes.extend(o.writes.iter().cloned());
    }
    /// W/W, W/R or R/W on the same slot.
    pub fn conflicts(&self, o: &Access) -> bool {
        self.writes.iter().any(|s| o.writes.contains(s) || o.reads.contains(s))
            || self.reads.iter().any(|s| o.writes.contains(s))
    }
    pub fn is_empty(&self) -> bool {
        self.reads.is_empty() && self.writes.is_empty()
    }
}

/// One schedulable unit of a builder level (a system or a whole batch).
#[derive(Clone, Debug)]
pub struct Unit {
    pub uid: u32,
    /// registration index among the units of this level
    pub reg: usize,
    pub name: String,
    pub deps: Vec<String>,
    pub access: Access,
    pub time: u8,
    /// number of effective-or-not barriers registered before this unit
    pub barriers_before: usize,
    pub is_batch: bool,
}

impl Plan {
    pub fn n_uids(&self) -> usize {
        self.max_uid().map(|m| m as usize + 1).unwrap_or(0)
    }

    pub fn max_uid(&self) -> Option<u32> {
        let mut m = None;
        self.walk(&mut |it, _| {
            let u = match it {
                Item::Sys(s) => Some(s.uid),
                Item::Batch(b) => Some(b.uid),
                Item::Tl(t) => Some(t.uid),
                Item::Barrier | Item::Failed(_) => None,
            };
            if let Some(u) = u {
                m = Some(m.map_or(u, |x: u32| x.max(u)));
            }
        });
        m
    }

    /// Visits every item of the tree with its nesting depth.
    pub fn walk<'a>(&'a self, f: &mut dyn FnMut(&'a Item, usize)) {
        fn go<'a>(p: &'a Plan, d: usize, f: &mut dyn FnMut(&'a Item, usize)) {
            for it in &p.items {
                f(it, d);
                if let Item::Batch(b) = it {
                    go(&b.inner, d + 1, f);
                }
            }
        }
        go(self, 0, f);
    }

    /// Number of non-thread-local units of this level.
    pub fn n_units(&self) -> usize {
        self.items.iter().filter(|i| matches!(i, Item::Sys(_) | Item::Batch(_))).count()
    }

    pub fn tls(&self) -> Vec<&TlSpec> {
        self.items.iter().filter_map(|i| if let Item::Tl(t) = i { Some(t) } else { None }).collect()
    }

    pub fn n_systems_total(&self) -> usize {
        let mut n = 0;
        self.walk(&mut |it, _| {
            if !matches!(it, Item::Barrier | Item::Failed(_)) {
                n += 1
            }
        });
        n
    }

    pub fn depth(&self) -> usize {
        let mut d = 0;
        self.walk(&mut |it, dd| {
            if matches!(it, Item::Batch(_)) {
                d = d.max(dd + 1)
            }
        });
        d
    }

    /// Union of everything every system inside this plan declares (recursively; thread-local
    /// systems are not schedulable units and declare nothing to shred).
    pub fn inner_access(&self) -> Access {
        let mut a = Access::default();
        for it in &self.items {
            match it {
                Item::Sys(s) => a.union(&Access::of(&s.reads, &s.writes)),
                Item::Batch(b) => a.union(&b.access()),
                _ => {}
            }
        }
        a
    }

    /// The units of this builder level in registration order.
    pub fn units(&self) -> Vec<Unit> {
        let mut v = Vec::new();
        let mut barriers = 0;
        for it in &self.items {
            match it {
                Item::Barrier => barriers += 1,
                Item::Failed(_) => {}
                Item::Sys(s) => v.push(Unit {
                    uid: s.uid,
                    reg: v.len(),
                    name: s.name.clone(),
                    deps: s.deps.clone(),
                    access: Access::of(&s.reads, &s.writes),
                    time: s.time,
                    barriers_before: barriers,
                    is_batch: false,
                }),
                Item::Batch(b) => v.push(Unit {
                    uid: b.uid,
                    reg: v.len(),
                    name: b.name.clone(),
                    deps: b.deps.clone(),
                    access: b.access(),
                    time: b.time,
                    barriers_before: barriers,
                    is_batch: true,
                }),
                Item::Tl(_) => {}
            }
        }
        v
    }

    /// every slot mentioned anywhere in the plan (any depth)
    pub fn slots_used(&self) -> BTreeSet<Slot> {
        let mut out = BTreeSet::new();
        self.walk(&mut |it, _| match it {
            Item::Sys(s) => out.extend(s.reads.iter().chain(s.writes.iter()).cloned()),
            Item::Tl(t) => out.extend(t.reads.iter().chain(t.writes.iter()).cloned()),
            Item::Batch(b) => {
                let a = b.ctl_access();
                out.extend(a.reads.iter().chain(a.writes.iter()).cloned());
            }
            _ => {}
        });
        out
    }

    pub fn batches(&self) -> Vec<&BatchSpec> {
        self.items.iter().filter_map(|i| if let Item::Batch(b) = i { Some(b) } else { None }).collect()
    }

    pub fn find_batch(&self, uid: u32) -> Option<&BatchSpec> {
        for it in &self.items {
            if let Item::Batch(b) = it {
                if b.uid == uid {
                    return Some(b);
                }
                if let Some(x) = b.inner.find_batch(uid) {
                    return Some(x);
                }
            }
        }
        None
    }

    /// Structural hash (names included).
    pub fn hash(&self) -> u64 {
        let mut h = 0x9a17u64;
        for it in &self.items {
            match it {
                Item::Barrier => h = mix(h, 1),
                Item::Failed(k) => h = mix(h, 50 + *k as u64),
                Item::Tl(t) => {
                    h = mix(h, 2);
                    h = mix(h, t.uid as u64);
                }
                Item::Sys(s) => {
                    h = mix(h, 3);
                    h = mix(h, hash_str(&s.name));
                    for d in &s.deps {
                        h = mix(h, hash_str(d));
                    }
                    h = mix(h, 0xaa);
                    for r in &s.reads {
                        h = mix(h, r.0 as u64);
                    }
                    h = mix(h, 0xbb);
                    for w in &s.writes {
                        h = mix(h, w.0 as u64 + 100);
                    }
                    h = mix(h, s.time as u64);
                    h = mix(h, match s.kind { Kind::Dyn => 0, Kind::Static(m) => 1 + m as u64 });
                }
                Item::Batch(b) => {
                    h = mix(h, 4);
                    h = mix(h, hash_str(&b.name));
                    for d in &b.deps {
                        h = mix(h, hash_str(d));
                    }
                    h = mix(h, b.ctl_menu as u64);
                    h = mix(h, b.k as u64 + if b.multi { 100 } else { 0 });
                    h = mix(h, b.time as u64);
                    h = mix(h, b.inner.hash());
                }
            }
        }
        h
    }

    pub fn to_json(&self) -> J {
        let mut a = J::Arr(vec![]);
        for it in &self.items {
            a.push(match it {
                Item::Barrier => J::Str("BARRIER".into()),
                Item::Failed(k) => J::Str(failed_label(*k)),
                Item::Tl(t) => J::obj()
                    .set("tl", t.uid)
                    .set("r", slots_json(&t.reads))
                    .set("w", slots_json(&t.writes)),
                Item::Sys(s) => J::obj()
                    .set("sys", s.uid)
                    .set("name", &s.name)
                    .set("deps", &s.deps)
                    .set("r", slots_json(&s.reads))
                    .set("w", slots_json(&s.writes))
                    .set("time", s.time)
                    .set("kind", match s.kind { Kind::Dyn => "dyn".to_string(), Kind::Static(m) => format!("static{}", m) }),
                Item::Batch(b) => J::obj()
                    .set("batch", b.uid)
                    .set("name", &b.name)
                    .set("deps", &b.deps)
                    .set("ctl_menu", b.ctl_menu)
                    .set("k", b.k)
                    .set("multi", b.multi)
                    .set("time", b.time)
                    .set("inner", b.inner.to_json()),
            });
        }
        a
    }
}

pub fn slots_json(s: &[Slot]) -> J {
    J::Arr(s.iter().map(|x| J::Str(x.label())).collect())
}

impl BatchSpec {
    /// controller's declared data ∪ everything inside, at any depth
    pub fn access(&self) -> Access {
        let (r, w) = crate::sys::menu_slots(self.ctl_menu);
        let mut a = Access::of(&r, &w);
        a.union(&self.inner.inner_access());
        a
    }
    pub fn ctl_access(&self) -> Access {
        let (r, w) = crate::sys::menu_slots(self.ctl_menu);
        Access::of(&r, &w)
    }
}

/// Relations among the units of one level, computed from the plan only.
pub struct Relations {
    pub units: Vec<Unit>,
    pub index: HashMap<u32, usize>,
    /// direct dependencies as unit indices (duplicates removed)
    pub deps: Vec<Vec<usize>>,
    /// transitive closure of `deps`
    pub deps_tc: Vec<BTreeSet<usize>>,
    /// for each unit: the *effective segment* number (increases at every barrier that had at
    /// least one unit registered since the previous effective barrier)
    pub segment: Vec<usize>,
}

impl Relations {
    pub fn of(plan: &Plan) -> Relations {
        let units = plan.units();
        let mut index = HashMap::new();
        let mut by_name: HashMap<&str, usize> = HashMap::new();
        let mut deps = Vec::new();
        for (i, u) in units.iter().enumerate() {
            index.insert(u.uid, i);
            let mut d: Vec<usize> = u.deps.iter().filter_map(|n| by_name.get(n.as_str()).cloned()).collect();
            d.sort();
            d.dedup();
            deps.push(d);
            if !u.name.is_empty() {
                by_name.entry(u.name.as_str()).or_insert(i);
            }
        }
        let mut deps_tc: Vec<BTreeSet<usize>> = Vec::with_capacity(units.len());
        for i in 0..units.len() {
            let mut s = BTreeSet::new();
            for &d in &deps[i] {
                s.insert(d);
                let sub: Vec<usize> = deps_tc[d].iter().cloned().collect();
                s.extend(sub);
            }
            deps_tc.push(s);
        }
        // effective segments
        let mut segment = Vec::with_capacity(units.len());
        let mut seg = 0usize;
        let mut last_barriers = 0usize;
        for (i, u) in units.iter().enumerate() {
            if i > 0 && u.barriers_before > last_barriers {
                seg += 1;
            }
            // a leading barrier (before any unit) is not effective
            last_barriers = u.barriers_before;
            segment.push(seg);
        }
        Relations { units, index, deps, deps_tc, segment }
    }

    pub fn conflict(&self, i: usize, j: usize) -> bool {
        self.units[i].access.conflicts(&self.units[j].access)
    }
}
