//! Runtime-monitoring harness for amethyst/shred (see /verif/DESIGN.md).
#![allow(clippy::type_complexity, clippy::needless_range_loop, clippy::new_without_default)]

pub mod rng;
pub mod json;
#[macro_use]
pub mod res;
pub mod ctx;
pub mod plan;
#[macro_use]
pub mod sys;
pub mod gen;
pub mod layout;
pub mod oracle;
pub mod exec;
pub mod report;
pub mod props;
