//! Shared run context: lock-free event log on one logical clock, counters, schedule drivers,
//! violation sink, quiet panic hook.
//!
//! Soundness rule: every event of a harness system is logged strictly inside that system's
//! `run_now`, and the timestamp is taken by the same atomic step that orders the event.  Therefore
//! `ts(x) < ts(y)` whenever x really completed before y began, and two logged windows that overlap
//! belong to `run_now` calls that really overlapped.

use std::cell::Cell;
use std::collections::HashMap;
use std::sync::atomic::{AtomicBool, AtomicU32, AtomicU64, AtomicU8, AtomicUsize, Ordering::*};
use std::sync::{Arc, Mutex, RwLock};
use std::time::{Duration, Instant};

use crate::rng::mix;

#[derive(Clone, Copy, PartialEq, Eq, Debug, Hash)]
#[repr(u8)]
pub enum Ev {
    DispBegin = 1,
    DispEnd = 2,
    FetchEnter = 3,
    FetchDone = 4,
    RunStart = 5,
    RunEnd = 6,
    Released = 7,
    CtlBegin = 8,
    CtlEnd = 9,
    CtlDataEnter = 10,
    CtlDataRel = 11,
    InnerBegin = 12,
    InnerEnd = 13,
    TlStart = 14,
    TlEnd = 15,
    Setup = 16,
    Dispose = 17,
    Mark = 18,
}

impl Ev {
    fn from_u8(x: u8) -> Ev {
        match x {
            1 => Ev::DispBegin,
            2 => Ev::DispEnd,
            3 => Ev::FetchEnter,
            4 => Ev::FetchDone,
            5 => Ev::RunStart,
            6 => Ev::RunEnd,
            7 => Ev::Released,
            8 => Ev::CtlBegin,
            9 => Ev::CtlEnd,
            10 => Ev::CtlDataEnter,
            11 => Ev::CtlDataRel,
            12 => Ev::InnerBegin,
            13 => Ev::InnerEnd,
            14 => Ev::TlStart,
            15 => Ev::TlEnd,
            16 => Ev::Setup,
            17 => Ev::Dispose,
            _ => Ev::Mark,
        }
    }
    pub fn short(self) -> &'static str {
        match self {
            Ev::DispBegin => "DispBegin",
            Ev::DispEnd => "DispEnd",
            Ev::FetchEnter => "FetchEnter",
            Ev::FetchDone => "FetchDone",
            Ev::RunStart => "RunStart",
            Ev::RunEnd => "RunEnd",
            Ev::Released => "Released",
            Ev::CtlBegin => "CtlBegin",
            Ev::CtlEnd => "CtlEnd",
            Ev::CtlDataEnter => "CtlDataEnter",
            Ev::CtlDataRel => "CtlDataRel",
            Ev::InnerBegin => "InnerBegin",
            Ev::InnerEnd => "InnerEnd",
            Ev::TlStart => "TlStart",
            Ev::TlEnd => "TlEnd",
            Ev::Setup => "Setup",
            Ev::Dispose => "Dispose",
            Ev::Mark => "Mark",
        }
    }
}

#[derive(Clone, Copy, Debug)]
pub struct Event {
    pub ts: usize,
    pub kind: Ev,
    pub uid: u32,
    pub thread: u16,
    pub aux: u16,
}

impl Event {
    pub fn show(&self) -> String {
        format!("{}:{}(u{},t{},x{})", self.ts, self.kind.short(), self.uid, self.thread, self.aux)
    }
}

pub struct EventLog {
    slots: Vec<AtomicU64>,
    next: AtomicUsize,
    pub overflow: AtomicBool,
}

impl EventLog {
    pub fn new(cap: usize) -> Self {
        let mut slots = Vec::with_capacity(cap);
        slots.resize_with(cap, || AtomicU64::new(0));
        EventLog { slots, next: AtomicUsize::new(0), overflow: AtomicBool::new(false) }
    }

    /// One atomic step yields the timestamp and the slot.
    #[inline]
    pub fn push(&self, kind: Ev, uid: u32, aux: u16) -> usize {
        let ts = self.next.fetch_add(1, SeqCst);
        if ts < self.slots.len() {
            let w = ((kind as u64) << 58)
                | ((tid() as u64 & 0x3ff) << 48)
                | ((aux as u64) << 32)
                | uid as u64;
            self.slots[ts].store(w, SeqCst);
        } else {
            self.overflow.store(true, SeqCst);
        }
        ts
    }

    pub fn len(&self) -> usize {
        self.next.load(SeqCst).min(self.slots.len())
    }

    /// Events with ts in [from, len). Only call at quiescent points.
    pub fn since(&self, from: usize) -> Vec<Event> {
        let n = self.len();
        let mut v = Vec::with_capacity(n.saturating_sub(from));
        for ts in from..n {
            let w = self.slots[ts].load(SeqCst);
            if w == 0 {
                continue;
            }
            v.push(Event {
                ts,
                kind: Ev::from_u8((w >> 58) as u8),
                thread: ((w >> 48) & 0x3ff) as u16,
                aux: ((w >> 32) & 0xffff) as u16,
                uid: (w & 0xffff_ffff) as u32,
            });
        }
        v
    }

    /// Only at quiescent points.
    pub fn reset(&self) {
        let n = self.len();
        for s in &self.slots[..n] {
            s.store(0, SeqCst);
        }
        self.next.store(0, SeqCst);
        self.overflow.store(false, SeqCst);
    }
}

static NEXT_TID: AtomicU32 = AtomicU32::new(1);
thread_local! {
    static TID: Cell<u16> = const { Cell::new(0) };
}

/// Small integer id of the current OS thread (stable for the life of the thread).
pub fn tid() -> u16 {
    TID.with(|t| {
        let v = t.get();
        if v != 0 {
            v
        } else {
            let n = (NEXT_TID.fetch_add(1, SeqCst) & 0x3ff) as u16;
            let n = if n == 0 { 0x3ff } else { n };
            t.set(n);
            n
        }
    })
}

#[derive(Clone, Copy, PartialEq, Eq, Debug)]
#[repr(u8)]
pub enum Mode {
    /// normal monitored run: gates, event log, real borrows, payload work
    Run = 0,
    /// identification run: systems only append their uid
    Identify = 1,
    /// counters only (no log, no gates) but real borrows and payload work
    Quiet = 2,
    /// registration / setup phase: like Quiet (systems are not expected to run)
    Build = 3,
    /// happens-before probe for the race detectors (ThreadSanitizer, Miri): a system does nothing
    /// but read, non-atomically, the plain cells of the systems that must have finished before it
    /// and then write its own one - and touches no atomic of the harness on the way, so that the
    /// only synchronisation between two systems is the dispatcher's own
    Hb = 4,
}

#[derive(Clone, Copy, PartialEq, Eq, Debug, Hash)]
#[repr(u8)]
pub enum Gate {
    PreFetch = 0,
    PostFetch = 1,
    PreRun = 2,
    PostRun = 3,
    PreRelease = 4,
    PostRelease = 5,
}

pub trait Driver: Send + Sync {
    fn gate(&self, ctx: &Ctx, uid: u32, g: Gate);
    fn name(&self) -> String;
}

pub struct Free;
impl Driver for Free {
    #[inline]
    fn gate(&self, _: &Ctx, _: u32, _: Gate) {}
    fn name(&self) -> String {
        "free".into()
    }
}

#[derive(Clone, Debug)]
pub enum IdentEv {
    Sys(u32),
    Tl(u32),
    /// (batch uid, inner shape, inner thread-local count or usize::MAX for multi, inner max_threads)
    BatchBegin(u32, Vec<Vec<usize>>, usize, usize),
    BatchEnd(u32),
}

/// What a system does beyond its normal body.
pub const INJ_NONE: u8 = 0;
pub const INJ_PANIC_RUN: u8 = 1;
pub const INJ_PANIC_FETCH: u8 = 2;
/// the system's own `setup` hook panics (after it was counted)
pub const INJ_PANIC_SETUP: u8 = 3;

pub struct Ctx {
    pub n: usize,
    pub log: EventLog,
    mode: AtomicU8,
    driver: RwLock<Arc<dyn Driver>>,
    pub runs: Vec<AtomicU32>,
    pub ends: Vec<AtomicU32>,
    pub setups: Vec<AtomicU32>,
    pub disposes: Vec<AtomicU32>,
    pub obs: Vec<AtomicU64>,
    pub inject: Vec<AtomicU8>,
    pub last_thread: Vec<AtomicU32>,
    pub violations: Mutex<Vec<String>>,
    pub ident: Mutex<Vec<IdentEv>>,
    pub disp: AtomicU32,
    pub spin: AtomicU32,
    /// controllers use `dispatch_seq` + `dispatch_thread_local` instead of `dispatch`
    pub inner_seq: AtomicBool,
    pub torn: AtomicU64,
    pub token: AtomicU64,
    /// how often the injected panic of a uid has fired
    pub fired: Vec<AtomicU32>,
    /// systems currently inside run / systems that have completed run (all uids)
    pub active: AtomicU32,
    pub finished: AtomicU64,
    /// batch controllers catch a panic of their inner dispatch and dispatch again
    pub ctl_catches: AtomicBool,
    pub ctl_caught: AtomicU32,
    pub panic_fired: AtomicU32,
    /// plain (non-atomic) cells of the happens-before probe, one per uid
    pub hb: HbCells,
    hb_preds: std::sync::OnceLock<Vec<Vec<u32>>>,
}

pub struct HbCells(pub Vec<std::cell::UnsafeCell<u64>>);
// shared on purpose: see `Mode::Hb`
unsafe impl Sync for HbCells {}
unsafe impl Send for HbCells {}

impl Ctx {
    pub fn new(n_uids: usize, log_cap: usize) -> Arc<Ctx> {
        fn v32(n: usize) -> Vec<AtomicU32> {
            (0..n).map(|_| AtomicU32::new(0)).collect()
        }
        Arc::new(Ctx {
            n: n_uids,
            log: EventLog::new(log_cap),
            mode: AtomicU8::new(Mode::Build as u8),
            driver: RwLock::new(Arc::new(Free)),
            runs: v32(n_uids),
            ends: v32(n_uids),
            setups: v32(n_uids),
            disposes: v32(n_uids),
            obs: (0..n_uids).map(|_| AtomicU64::new(0)).collect(),
            inject: (0..n_uids).map(|_| AtomicU8::new(0)).collect(),
            last_thread: v32(n_uids),
            violations: Mutex::new(Vec::new()),
            ident: Mutex::new(Vec::new()),
            disp: AtomicU32::new(0),
            spin: AtomicU32::new(0),
            inner_seq: AtomicBool::new(false),
            torn: AtomicU64::new(0),
            token: AtomicU64::new(1),
            fired: v32(n_uids),
            active: AtomicU32::new(0),
            finished: AtomicU64::new(0),
            ctl_catches: AtomicBool::new(false),
            ctl_caught: AtomicU32::new(0),
            panic_fired: AtomicU32::new(0),
            hb: HbCells((0..n_uids).map(|_| std::cell::UnsafeCell::new(0)).collect()),
            hb_preds: std::sync::OnceLock::new(),
        })
    }

    #[inline]
    pub fn mode(&self) -> Mode {
        match self.mode.load(Relaxed) {
            0 => Mode::Run,
            1 => Mode::Identify,
            2 => Mode::Quiet,
            4 => Mode::Hb,
            _ => Mode::Build,
        }
    }

    /// Installs the "must have finished before" lists (indexed by uid) of the Hb mode.
    pub fn hb_set(&self, preds: Vec<Vec<u32>>) {
        let _ = self.hb_preds.set(preds);
    }
    /// Hb mode, start of a system: plain reads of the cells of its predecessors and of its own
    /// cell (its previous run belongs to an earlier dispatch).
    #[inline(never)]
    pub fn hb_enter(&self, uid: u32) -> u64 {
        let mut acc = 0u64;
        if let Some(p) = self.hb_preds.get() {
            if let Some(l) = p.get(uid as usize) {
                for q in l {
                    // SAFETY (on a correct dispatcher): the writer of this cell has finished and
                    // its end happens-before our start. A dispatcher that lacks that edge makes
                    // this a data race - which is exactly what the sanitizer is there to report.
                    acc = acc.wrapping_add(unsafe { std::ptr::read_volatile(self.hb.0[*q as usize].get()) });
                }
            }
        }
        acc.wrapping_add(unsafe { std::ptr::read_volatile(self.hb.0[uid as usize].get()) })
    }
    /// Hb mode, end of a system: plain write of its own cell.
    #[inline(never)]
    pub fn hb_leave(&self, uid: u32, v: u64) {
        unsafe { std::ptr::write_volatile(self.hb.0[uid as usize].get(), v.wrapping_add(1)) }
    }
    /// Hb mode, after a call returned to the caller: everything that ran happened before.
    pub fn hb_read_all(&self) -> u64 {
        let mut acc = 0u64;
        for c in &self.hb.0 {
            acc = acc.wrapping_add(unsafe { std::ptr::read_volatile(c.get()) });
        }
        acc
    }
    pub fn set_mode(&self, m: Mode) {
        self.mode.store(m as u8, SeqCst);
    }

    pub fn arm(&self, d: Arc<dyn Driver>) {
        *self.driver.write().unwrap_or_else(|e| e.into_inner()) = d;
    }
    pub fn disarm(&self) {
        self.arm(Arc::new(Free));
    }

    #[inline]
    pub fn gate(&self, uid: u32, g: Gate) {
        if self.mode() != Mode::Run {
            return;
        }
        let d = self.driver.read().unwrap_or_else(|e| e.into_inner()).clone();
        d.gate(self, uid, g);
    }

    #[inline]
    pub fn ev(&self, kind: Ev, uid: u32, aux: u16) {
        if self.mode() == Mode::Run {
            self.log.push(kind, uid, aux);
        }
    }

    /// Monitors never panic inside a dispatch: they report here.
    pub fn violation(&self, s: String) {
        let mut v = self.violations.lock().unwrap_or_else(|e| e.into_inner());
        if v.len() < 64 {
            v.push(s);
        }
    }
    pub fn take_violations(&self) -> Vec<String> {
        std::mem::take(&mut *self.violations.lock().unwrap_or_else(|e| e.into_inner()))
    }

    pub fn ident_push(&self, e: IdentEv) {
        self.ident.lock().unwrap_or_else(|e| e.into_inner()).push(e);
    }
    pub fn take_ident(&self) -> Vec<IdentEv> {
        std::mem::take(&mut *self.ident.lock().unwrap_or_else(|e| e.into_inner()))
    }

    pub fn run_counts(&self) -> Vec<u32> {
        self.runs.iter().map(|a| a.load(SeqCst)).collect()
    }
    pub fn obs_digest(&self) -> u64 {
        let mut h = 7u64;
        for o in &self.obs {
            h = mix(h, o.load(SeqCst));
        }
        h
    }
    pub fn obs_table(&self) -> Vec<u64> {
        self.obs.iter().map(|o| o.load(SeqCst)).collect()
    }

    /// Begin / end of one top-level dispatch as seen at the caller boundary.
    pub fn disp_begin(&self) -> u32 {
        let d = self.disp.fetch_add(1, SeqCst) + 1;
        self.ev(Ev::DispBegin, 0, d as u16);
        d
    }
    pub fn disp_end(&self) {
        let d = self.disp.load(SeqCst);
        self.ev(Ev::DispEnd, 0, d as u16);
    }

    pub fn next_token(&self) -> u64 {
        self.token.fetch_add(1, SeqCst)
    }
}

// ------------------------------------------------------------------------------------------------
// Drivers
// ------------------------------------------------------------------------------------------------

#[inline]
fn spin_for(n: u64) {
    for i in 0..n {
        std::hint::black_box(i);
        std::hint::spin_loop();
    }
}

/// Wait until `cond()` or the deadline; spins first, then yields, then sleeps briefly.
pub fn wait_until(deadline: Instant, mut cond: impl FnMut() -> bool) -> bool {
    let mut i = 0u32;
    loop {
        if cond() {
            return true;
        }
        i += 1;
        if i < 200 {
            std::hint::spin_loop();
        } else if i < 2000 {
            std::thread::yield_now();
        } else {
            if Instant::now() >= deadline {
                return cond();
            }
            std::thread::sleep(Duration::from_micros(50));
        }
        if i % 64 == 0 && Instant::now() >= deadline {
            return cond();
        }
    }
}

/// Random delays at the begin-gates. Pure diversity; never decides anything.
pub struct Jitter {
    pub seed: u64,
    /// 0 = light (spins/yields only), 1 = with short sleeps
    pub level: u8,
}
impl Driver for Jitter {
    fn gate(&self, ctx: &Ctx, uid: u32, g: Gate) {
        let d = ctx.disp.load(Relaxed) as u64;
        let h = mix(mix(self.seed, uid as u64 * 8 + g as u64), d);
        match h % 16 {
            0..=6 => {}
            7..=9 => spin_for((h >> 8) % 300),
            10 | 11 => spin_for((h >> 8) % 20_000),
            12 | 13 => std::thread::yield_now(),
            14 => {
                std::thread::yield_now();
                spin_for((h >> 8) % 2_000);
                std::thread::yield_now();
            }
            _ => {
                if self.level > 0 {
                    std::thread::sleep(Duration::from_micros(10 + (h >> 8) % 200));
                } else {
                    spin_for((h >> 8) % 50_000);
                }
            }
        }
    }
    fn name(&self) -> String {
        format!("jitter({:x},{})", self.seed, self.level)
    }
}

/// Long-running systems: about half of the runs stay inside `run` for 1.5 .. 5 ms, so the groups
/// of a stage end at clearly different times (milliseconds apart).
pub struct Slow {
    pub seed: u64,
}
impl Driver for Slow {
    fn gate(&self, ctx: &Ctx, uid: u32, g: Gate) {
        if g != Gate::PostRun {
            return;
        }
        let d = ctx.disp.load(Relaxed) as u64;
        let us = [0u64, 0, 1500, 3000, 5000, 800][(mix(mix(self.seed, uid as u64), d) % 6) as usize];
        if us > 0 {
            std::thread::sleep(Duration::from_micros(us));
        }
    }
    fn name(&self) -> String {
        format!("slow({:x})", self.seed)
    }
}

/// One system is *very* slow (tens of milliseconds inside `run`), everything else is instant: a
/// dispatcher that adapts itself to measured running times gets something to adapt to.
pub struct OneVerySlow {
    pub target: u32,
    pub ms: u64,
}
impl Driver for OneVerySlow {
    fn gate(&self, _: &Ctx, uid: u32, g: Gate) {
        if g == Gate::PostRun && uid == self.target {
            std::thread::sleep(Duration::from_millis(self.ms));
        }
    }
    fn name(&self) -> String {
        format!("one-very-slow(u{}, {} ms)", self.target, self.ms)
    }
}

/// Forced maximal overlap: the systems mapped to one rendezvous point wait for each other at
/// `PreRun` (data already fetched). Bounded; on expiry the waiter gives up (amplifier only).
pub struct Overlap {
    /// uid -> rendezvous point
    pub point: HashMap<u32, usize>,
    pub expected: Vec<usize>,
    arrived: Vec<AtomicUsize>,
    visits: HashMap<u32, AtomicU32>,
    pub wait: Duration,
    pub completed: AtomicUsize,
    pub gave_up: AtomicUsize,
}
impl Overlap {
    pub fn new(groups: Vec<Vec<u32>>, wait: Duration) -> Overlap {
        let mut point = HashMap::new();
        let mut expected = Vec::new();
        let mut visits = HashMap::new();
        for (i, g) in groups.iter().enumerate() {
            expected.push(g.len());
            for u in g {
                point.insert(*u, i);
                visits.insert(*u, AtomicU32::new(0));
            }
        }
        let arrived = (0..groups.len()).map(|_| AtomicUsize::new(0)).collect();
        Overlap {
            point,
            expected,
            arrived,
            visits,
            wait,
            completed: AtomicUsize::new(0),
            gave_up: AtomicUsize::new(0),
        }
    }
}
impl Driver for Overlap {
    fn gate(&self, _ctx: &Ctx, uid: u32, g: Gate) {
        if g != Gate::PreRun {
            return;
        }
        let Some(&p) = self.point.get(&uid) else { return };
        let exp = self.expected[p];
        if exp < 2 {
            return;
        }
        let round = self.visits[&uid].fetch_add(1, SeqCst) as usize;
        self.arrived[p].fetch_add(1, SeqCst);
        let need = exp * (round + 1);
        // once one participant has given up the rendezvous of this driver is lost: nobody else
        // needs to sit out the full wait (on a narrow pool they would do so one after the other)
        let ok = wait_until(Instant::now() + self.wait, || self.arrived[p].load(SeqCst) >= need || self.gave_up.load(SeqCst) > 0)
            && self.arrived[p].load(SeqCst) >= need;
        if ok {
            self.completed.fetch_add(1, SeqCst);
        } else {
            self.gave_up.fetch_add(1, SeqCst);
        }
    }
    fn name(&self) -> String {
        format!("overlap({} points)", self.expected.len())
    }
}

/// Hold one system inside `run` (data held) until every system of `waits_for` has ended once more
/// than at arming time, then a grace period. Armed for one top-level dispatch.
pub struct Hold {
    pub target: u32,
    pub waits_for: Vec<u32>,
    base: Vec<u32>,
    pub grace: Duration,
    pub cap: Duration,
    fired: AtomicBool,
    /// 0 = never reached, 1 = quiescence reached, 2 = capped
    pub outcome: AtomicU8,
    pub at_gate: Gate,
    /// a second system (another group of the target's stage) that stays inside `run` for a few
    /// milliseconds: two long-running groups that end at different times
    pub stagger: Option<(u32, Duration)>,
}
impl Hold {
    pub fn new(ctx: &Ctx, target: u32, waits_for: Vec<u32>, grace: Duration, cap: Duration) -> Hold {
        let base = waits_for.iter().map(|u| ctx.ends[*u as usize].load(SeqCst)).collect();
        Hold {
            target,
            waits_for,
            base,
            grace,
            cap,
            fired: AtomicBool::new(false),
            outcome: AtomicU8::new(0),
            at_gate: Gate::PostRun,
            stagger: None,
        }
    }
}
impl Driver for Hold {
    fn gate(&self, ctx: &Ctx, uid: u32, g: Gate) {
        if let Some((y, d)) = self.stagger {
            if uid == y && g == Gate::PostRun {
                std::thread::sleep(d);
                return;
            }
        }
        if uid != self.target || g != self.at_gate {
            return;
        }
        if self.fired.swap(true, SeqCst) {
            return;
        }
        let ok = wait_until(Instant::now() + self.cap, || {
            self.waits_for
                .iter()
                .zip(&self.base)
                .all(|(u, b)| ctx.ends[*u as usize].load(SeqCst) > *b)
        });
        self.outcome.store(if ok { 1 } else { 2 }, SeqCst);
        // grace: anything that is (wrongly) able to start gets the chance to log it
        let end = Instant::now() + self.grace;
        while Instant::now() < end {
            std::thread::yield_now();
        }
    }
    fn name(&self) -> String {
        format!("hold(u{})", self.target)
    }
}

/// Scripted interleaving: a total order of (uid, step) with step 0 = fetch, 1 = body, 2 = release.
/// Steps are executed one at a time in exactly that order (token passing).
pub struct Script {
    pub order: Vec<(u32, u8)>,
    index: HashMap<(u32, u8), usize>,
    turn: AtomicUsize,
    pub stuck: AtomicBool,
    pub watchdog: Duration,
    visits: HashMap<u32, AtomicU32>,
}
impl Script {
    pub fn new(order: Vec<(u32, u8)>, watchdog: Duration) -> Script {
        let mut index = HashMap::new();
        let mut visits = HashMap::new();
        for (i, k) in order.iter().enumerate() {
            index.insert(*k, i);
            visits.entry(k.0).or_insert_with(|| AtomicU32::new(0));
        }
        Script { order, index, turn: AtomicUsize::new(0), stuck: AtomicBool::new(false), watchdog, visits }
    }
    pub fn finished(&self) -> bool {
        !self.stuck.load(SeqCst) && self.turn.load(SeqCst) == self.order.len()
    }
}
impl Driver for Script {
    fn gate(&self, _ctx: &Ctx, uid: u32, g: Gate) {
        let Some(v) = self.visits.get(&uid) else { return };
        // only the first pass of every participant is scripted
        let seen = v.load(SeqCst);
        if g == Gate::PreFetch {
            if seen > 0 {
                v.store(2, SeqCst);
                return;
            }
            v.store(1, SeqCst);
        } else if seen != 1 {
            return;
        }
        if self.stuck.load(SeqCst) {
            return;
        }
        let step = g as u8 / 2;
        let Some(&idx) = self.index.get(&(uid, step)) else { return };
        if g as u8 % 2 == 0 {
            let ok = wait_until(Instant::now() + self.watchdog, || {
                self.turn.load(SeqCst) == idx || self.stuck.load(SeqCst)
            });
            if !ok {
                self.stuck.store(true, SeqCst);
            }
        } else {
            // end of the step: pass the token on
            let _ = self.turn.compare_exchange(idx, idx + 1, SeqCst, SeqCst);
        }
    }
    fn name(&self) -> String {
        format!("script({} steps)", self.order.len())
    }
}

/// Chains two drivers (e.g. jitter + hold).
pub struct Both(pub Arc<dyn Driver>, pub Arc<dyn Driver>);
impl Driver for Both {
    fn gate(&self, ctx: &Ctx, uid: u32, g: Gate) {
        self.0.gate(ctx, uid, g);
        self.1.gate(ctx, uid, g);
    }
    fn name(&self) -> String {
        format!("{}+{}", self.0.name(), self.1.name())
    }
}

// ------------------------------------------------------------------------------------------------
// Panic bookkeeping
// ------------------------------------------------------------------------------------------------

#[derive(Clone, Debug)]
pub struct PanicRec {
    pub thread: u16,
    pub msg: String,
    pub loc: String,
}

static PANICS: Mutex<Vec<PanicRec>> = Mutex::new(Vec::new());
static HOOK: std::sync::Once = std::sync::Once::new();

/// Installs a process-wide hook that records panics silently.
pub fn install_quiet_hook() {
    HOOK.call_once(|| {
        std::panic::set_hook(Box::new(|info| {
            let msg = payload_str(info.payload());
            let loc = info.location().map(|l| format!("{}:{}", l.file(), l.line())).unwrap_or_default();
            let mut p = PANICS.lock().unwrap_or_else(|e| e.into_inner());
            if p.len() < 10_000 {
                p.push(PanicRec { thread: tid(), msg, loc });
            }
        }));
    });
}

pub fn take_panics() -> Vec<PanicRec> {
    std::mem::take(&mut *PANICS.lock().unwrap_or_else(|e| e.into_inner()))
}

/// Runs `f` from a destructor while the thread is unwinding from an unrelated panic (a cleanup
/// guard that uses the library on its way out). The destructor catches whatever `f` does; the
/// result (or the payload text of `f`'s own panic) is handed back after the unwinding was caught.
pub fn during_unwind<R>(f: impl FnOnce() -> R) -> Result<R, String> {
    struct OnUnwind<F: FnOnce()>(Option<F>);
    impl<F: FnOnce()> Drop for OnUnwind<F> {
        fn drop(&mut self) {
            if let Some(f) = self.0.take() {
                f()
            }
        }
    }
    let out: std::cell::RefCell<Option<Result<R, String>>> = std::cell::RefCell::new(None);
    let _ = std::panic::catch_unwind(std::panic::AssertUnwindSafe(|| {
        let _guard = OnUnwind(Some(|| {
            let r = std::panic::catch_unwind(std::panic::AssertUnwindSafe(f));
            *out.borrow_mut() = Some(r.map_err(|p| payload_str(&*p)));
        }));
        std::panic::panic_any("INJECTED-PANIC scoped (an unrelated panic; a destructor uses the library on the way out)".to_string());
    }));
    out.into_inner().unwrap_or_else(|| Err("harness: the destructor did not run".to_string()))
}

/// Panic payload that is not a message (`panic_any` of a user type: an error value, a code).
#[derive(Debug, Clone, PartialEq, Eq)]
pub struct InjectedPayload {
    pub uid: u32,
    pub token: u64,
}

pub fn payload_str(p: &(dyn std::any::Any + Send)) -> String {
    if let Some(s) = p.downcast_ref::<&'static str>() {
        (*s).to_string()
    } else if let Some(s) = p.downcast_ref::<String>() {
        s.clone()
    } else if let Some(x) = p.downcast_ref::<InjectedPayload>() {
        format!("INJECTED-PANIC uid={} token={} (payload: a struct)", x.uid, x.token)
    } else if let Some(x) = p.downcast_ref::<u64>() {
        // integer payloads of the harness: uid in the upper half, token in the lower
        format!("INJECTED-PANIC uid={} token={} (payload: an integer)", x >> 32, x & 0xffff_ffff)
    } else {
        "<non-string payload>".to_string()
    }
}

#[derive(Clone, Copy, PartialEq, Eq, Debug)]
pub enum PanicKind {
    BorrowConflict,
    MissingResource,
    Injected,
    WrongTypeId,
    Other,
}

pub fn classify(msg: &str) -> PanicKind {
    if msg.contains("INJECTED-PANIC") {
        PanicKind::Injected
    } else if msg.contains("already mutably borrowed")
        || msg.contains("already immutably borrowed")
        || msg.contains("already borrowed")
    {
        PanicKind::BorrowConflict
    } else if msg.contains("Tried to fetch resource") {
        PanicKind::MissingResource
    } else if msg.contains("wrong type ID") {
        PanicKind::WrongTypeId
    } else {
        PanicKind::Other
    }
}
